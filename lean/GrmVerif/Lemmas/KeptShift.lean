import GrmVerif.Lemmas.RecEdited
import GrmVerif.Lemmas.RecLive
/-!
The weakened form of `KeptInvisible` (C05) that certified conflict-free tables satisfy, and the
vocabulary of the whole-run theorems stated with it.

`KeptShiftInvisible G A`: if the stack `a` left by offering refused lexemes to a path stack `b`
(`Kept a b`) shifts a token, the unreduced stack `b` shifts it to the same stack, and if `a` accepts,
`b` accepts. Nothing is said about a token that `a` refuses (merged tables detect errors late: the
unreduced stack may shift what the reduced one refuses). The answer of `b` is given for SOME fuel of
`feed`: `b` has to redo the kept reductions first, so at the model's constant `FUEL` it can run out
where `a` does not; an answer other than "out of fuel" is the answer for every larger fuel
(`C07.feed_ge`), and the real parser's loop has no fuel.

`FirstValid`: the first sequence the recoverer reports at an error repairs (`validSeq … N`, `N ≥ 1`):
after it the plain parse shifts a lexeme or accepts. This is what makes the third clause of
`KeptInvisible` unnecessary: an error is never reported on a stack that still carries kept reductions.

The plain parse of the edited input is described without fuel (`ShiftsTo`, `FeedsTo`, `AcceptsAt`,
`RefusesAt`) and, as a function, with the fuel of `feed` as a parameter (`feedToksF`, `plainFromF`;
at `FUEL` these are `feedToks`, `plainFrom`).
-/
namespace GrmVerif.C05
open GrmVerif Rec LR Cert Term

/-- **The reductions kept under refused lexemes cannot be observed by a token that is shifted or
accepted afterwards** (for some fuel of `feed` on the unreduced stack, hence for every larger one). -/
def KeptShiftInvisible (G : Grammar) (A : Automaton) : Prop :=
  ∀ a b, Kept G A a b → IsPath A b → ∀ t,
    (∀ x, feed G A t FUEL a = .shifted x → ∃ f, feed G A t f b = .shifted x) ∧
    (∀ x, feed G A t FUEL a = .accept x → ∃ f y, feed G A t f b = .accept y)

/-- the first sequence reported at every repaired error repairs: it applies and the plain parse then
runs over at least `N` further lexemes or to acceptance -/
def FirstValid (G : Grammar) (A : Automaton) (w : List Nat) (N : Nat)
    (recover : Pos → Option (Pos × List (List Repair))) : Prop :=
  ∀ c c' s0 rest, recover c = some (c', s0 :: rest) → validSeq G A w N c s0 = true

/-- no action cell beyond the grammar's tokens (true of every parsed automaton dump: a state carries
exactly `ntoks` action cells) -/
def colsOk (G : Grammar) (A : Automaton) : Bool :=
  A.states.all (fun sd => decide (sd.actions.length ≤ G.ntoks))

theorem colsOk_action {G : Grammar} {A : Automaton} (h : colsOk G A = true) {st t : Nat}
    (ha : A.action st t ≠ .error) : t < G.ntoks := by
  unfold Automaton.action at ha
  cases hs : A.states[st]? with
  | none => rw [hs] at ha; simp at ha
  | some sd =>
    rw [hs] at ha
    simp only [Option.bind_some] at ha
    cases hc : sd.actions[t]? with
    | none => rw [hc] at ha; simp at ha
    | some a' =>
      have htl : t < sd.actions.length := (List.getElem?_eq_some_iff.mp hc).1
      have hmem : sd ∈ A.states := List.mem_of_getElem? hs
      simp only [colsOk, List.all_eq_true, decide_eq_true_eq] at h
      have := h sd hmem
      omega

theorem action_state_lt {A : Automaton} {st t : Nat} (ha : A.action st t ≠ .error) : st < A.nstates := by
  unfold Automaton.action at ha
  cases hs : A.states[st]? with
  | none => rw [hs] at ha; simp at ha
  | some sd => exact (List.getElem?_eq_some_iff.mp hs).1

/-- the end-of-input discipline (`eofOk`'s meaning) follows from the certificate and the column bound:
K4 allows Accept only under end-of-input, and no edge carries the end-of-input token -/
theorem eof_discipline_of_cert {G : Grammar} {A : Automaton} (P : Props G A) (hcols : colsOk G A = true) :
    RankImpl.EofNeverShifted G A ∧ AcceptOnlyAtEof G A := by
  refine ⟨?_, ?_⟩
  · intro st s' ha
    have hst : st < A.nstates := action_state_lt (by rw [ha]; simp)
    exact no_eof_edge P hst (P.actShift st G.eof s' hst (Spec.wf_eof P.wf) ha)
  · intro st t ha
    have hst : st < A.nstates := action_state_lt (by rw [ha]; simp)
    have ht : t < G.ntoks := colsOk_action hcols (by rw [ha]; simp)
    exact (P.actAccept st t hst ht ha).1

/-! ### the plain parse without fuel -/

/-- the plain stack automaton shifts `t` from `b` to `x` (after the reductions the table prescribes) -/
def ShiftsTo (G : Grammar) (A : Automaton) (t : Nat) (b x : List Nat) : Prop :=
  ∃ f, feed G A t f b = .shifted x

/-- the plain stack automaton accepts under lookahead `t` from `b` -/
def AcceptsAt (G : Grammar) (A : Automaton) (t : Nat) (b : List Nat) : Prop :=
  ∃ f y, feed G A t f b = .accept y

/-- the plain stack automaton refuses lookahead `t` from `b` -/
def RefusesAt (G : Grammar) (A : Automaton) (t : Nat) (b : List Nat) : Prop :=
  ∃ f y, feed G A t f b = .error y

/-- the plain stack automaton shifts the tokens one after the other, from `b` to `st` -/
def FeedsTo (G : Grammar) (A : Automaton) : List Nat → List Nat → List Nat → Prop
  | b, [], st => st = b
  | b, t :: ts, st => ∃ x, ShiftsTo G A t b x ∧ FeedsTo G A x ts st

theorem feedsTo_append {G : Grammar} {A : Automaton} :
    ∀ (l1 l2 : List Nat) (b m st : List Nat), FeedsTo G A b l1 m → FeedsTo G A m l2 st →
      FeedsTo G A b (l1 ++ l2) st := by
  intro l1
  induction l1 with
  | nil => intro l2 b m st h1 h2; simp only [FeedsTo] at h1; subst h1; simpa using h2
  | cons t ts ih =>
    intro l2 b m st h1 h2
    obtain ⟨x, hx, h1'⟩ := h1
    exact ⟨x, hx, ih l2 x m st h1' h2⟩

theorem feedsTo_of_feedToks {G : Grammar} {A : Automaton} :
    ∀ (l : List Nat) (b st : List Nat), feedToks G A b l = some st → FeedsTo G A b l st := by
  intro l
  induction l with
  | nil => intro b st h; simp only [feedToks, Option.some.injEq] at h; exact h.symm
  | cons t ts ih =>
    intro b st h
    simp only [feedToks] at h
    cases hf : feed G A t FUEL b with
    | shifted s => rw [hf] at h; exact ⟨s, ⟨FUEL, hf⟩, ih s st h⟩
    | accept s => rw [hf] at h; cases h
    | error s => rw [hf] at h; cases h
    | crash => rw [hf] at h; cases h
    | fuelOut => rw [hf] at h; cases h

/-! ### the plain parse with the fuel of `feed` as a parameter -/

def feedToksF (G : Grammar) (A : Automaton) (ff : Nat) : List Nat → List Nat → Option (List Nat)
  | stack, [] => some stack
  | stack, t :: ts =>
    match feed G A t ff stack with
    | .shifted s => feedToksF G A ff s ts
    | _ => none

/-- `plainFrom` with `feed` given fuel `ff` -/
def plainFromF (G : Grammar) (A : Automaton) (ff : Nat) : List Nat → List Nat → Nat → PlainOut
  | st, [], k =>
    match feed G A G.eof ff st with
    | .accept _ => .accepted
    | .error _ => .refusedAt k
    | _ => .other
  | st, t :: ts, k =>
    match feed G A t ff st with
    | .shifted s => plainFromF G A ff s ts (k + 1)
    | .error _ => .refusedAt k
    | _ => .other

theorem feedToksF_FUEL (G : Grammar) (A : Automaton) :
    ∀ (l : List Nat) (st : List Nat), feedToksF G A FUEL st l = feedToks G A st l := by
  intro l
  induction l with
  | nil => intro st; rfl
  | cons t ts ih =>
    intro st
    simp only [feedToksF, feedToks]
    cases feed G A t FUEL st <;> simp [ih]

theorem plainFromF_FUEL (G : Grammar) (A : Automaton) :
    ∀ (l : List Nat) (st : List Nat) (k : Nat), plainFromF G A FUEL st l k = plainFrom G A st l k := by
  intro l
  induction l with
  | nil => intro st k; rfl
  | cons t ts ih =>
    intro st k
    simp only [plainFromF, plainFrom]
    cases feed G A t FUEL st <;> simp [ih]

/-- a plain parse that ended properly (accepted, or refused a token) ends the same way with more fuel -/
theorem plainFromF_mono {G : Grammar} {A : Automaton} {f f' : Nat} (hle : f ≤ f') :
    ∀ (l : List Nat) (st : List Nat) (k : Nat) (r : PlainOut), plainFromF G A f st l k = r → r ≠ .other →
      plainFromF G A f' st l k = r := by
  intro l
  induction l with
  | nil =>
    intro st k r h hr
    simp only [plainFromF] at h ⊢
    cases hf : feed G A G.eof f st with
    | accept s => rw [hf] at h; rw [C07.feed_ge hf (by simp) hle]; exact h
    | error s => rw [hf] at h; rw [C07.feed_ge hf (by simp) hle]; exact h
    | shifted s => rw [hf] at h; exact absurd h.symm hr
    | crash => rw [hf] at h; exact absurd h.symm hr
    | fuelOut => rw [hf] at h; exact absurd h.symm hr
  | cons t ts ih =>
    intro st k r h hr
    simp only [plainFromF] at h ⊢
    cases hf : feed G A t f st with
    | shifted s => rw [hf] at h; rw [C07.feed_ge hf (by simp) hle]; exact ih s (k + 1) r h hr
    | error s => rw [hf] at h; rw [C07.feed_ge hf (by simp) hle]; exact h
    | accept s => rw [hf] at h; exact absurd h.symm hr
    | crash => rw [hf] at h; exact absurd h.symm hr
    | fuelOut => rw [hf] at h; exact absurd h.symm hr

/-- the fuel-free relation gives the function's answer for every large enough fuel -/
theorem feedToksF_of_feedsTo {G : Grammar} {A : Automaton} :
    ∀ (l : List Nat) (b st : List Nat), FeedsTo G A b l st →
      ∃ ff0, ∀ ff, ff0 ≤ ff → feedToksF G A ff b l = some st := by
  intro l
  induction l with
  | nil => intro b st h; simp only [FeedsTo] at h; subst h; exact ⟨0, fun _ _ => rfl⟩
  | cons t ts ih =>
    intro b st h
    obtain ⟨x, ⟨f, hf⟩, h'⟩ := h
    obtain ⟨f1, h1⟩ := ih x st h'
    refine ⟨max f f1, fun ff hff => ?_⟩
    simp only [feedToksF, C07.feed_ge hf (by simp) (by omega : f ≤ ff)]
    exact h1 ff (by omega)

theorem plainFromF_append {G : Grammar} {A : Automaton} {ff : Nat} :
    ∀ (pre rest : List Nat) (st st' : List Nat) (k : Nat), feedToksF G A ff st pre = some st' →
      plainFromF G A ff st (pre ++ rest) k = plainFromF G A ff st' rest (k + pre.length) := by
  intro pre
  induction pre with
  | nil => intro rest st st' k h; simp only [feedToksF, Option.some.injEq] at h; subst h; simp
  | cons t ts ih =>
    intro rest st st' k h
    simp only [feedToksF] at h
    cases hf : feed G A t ff st with
    | shifted s =>
      rw [hf] at h
      simp only at h
      simp only [List.cons_append, plainFromF, hf, List.length_cons]
      rw [ih rest s st' (k + 1) h]
      congr 1
      omega
    | accept s => rw [hf] at h; cases h
    | error s => rw [hf] at h; cases h
    | crash => rw [hf] at h; cases h
    | fuelOut => rw [hf] at h; cases h

/-- shifting every token and then accepting under end-of-input: the plain parse accepts, for every
large enough fuel -/
theorem plainFromF_accepted {G : Grammar} {A : Automaton} (toks b st : List Nat) (k : Nat)
    (h1 : FeedsTo G A b toks st) (h2 : AcceptsAt G A G.eof st) :
    ∃ ff0, ∀ ff, ff0 ≤ ff → plainFromF G A ff b toks k = .accepted := by
  obtain ⟨f1, hf1⟩ := feedToksF_of_feedsTo toks b st h1
  obtain ⟨f2, y, hf2⟩ := h2
  refine ⟨max f1 f2, fun ff hff => ?_⟩
  have := plainFromF_append (G := G) (A := A) (ff := ff) toks [] b st k (hf1 ff (by omega))
  rw [List.append_nil] at this
  rw [this]
  simp [plainFromF, C07.feed_ge hf2 (by simp) (by omega : f2 ≤ ff)]

/-- shifting a prefix and refusing the first lexeme of the untouched rest of the input: the plain
parse has its first error there, for every large enough fuel -/
theorem plainFromF_refused {G : Grammar} {A : Automaton} (w pre b st : List Nat) (q k : Nat)
    (h1 : FeedsTo G A b pre st) (h2 : RefusesAt G A (nextTok G w q) st) :
    ∃ ff0, ∀ ff, ff0 ≤ ff →
      plainFromF G A ff b (pre ++ (reals q w.length).map (itemTok w)) k = .refusedAt (k + pre.length) := by
  obtain ⟨f1, hf1⟩ := feedToksF_of_feedsTo pre b st h1
  obtain ⟨f2, y, hf2⟩ := h2
  refine ⟨max f1 f2, fun ff hff => ?_⟩
  rw [plainFromF_append pre _ b st k (hf1 ff (by omega))]
  have hfe := C07.feed_ge hf2 (by simp) (by omega : f2 ≤ ff)
  rcases reals_toks_head G w q with ⟨_, tl, htl⟩ | ⟨_, hnil, he⟩
  · rw [htl]; simp [plainFromF, hfe]
  · rw [hnil]; rw [he] at hfe; simp [plainFromF, hfe]

/-- what holds for every large enough fuel holds at the model's `FUEL` unless the plain parse runs
out of fuel (or crashes) there -/
theorem plainFrom_of_large {G : Grammar} {A : Automaton} {b toks : List Nat} {k : Nat} {r : PlainOut}
    (h : ∃ ff0, ∀ ff, ff0 ≤ ff → plainFromF G A ff b toks k = r)
    (hne : plainFrom G A b toks k ≠ .other) : plainFrom G A b toks k = r := by
  obtain ⟨ff0, hff⟩ := h
  rw [← plainFromF_FUEL] at hne ⊢
  have := plainFromF_mono (G := G) (A := A) (Nat.le_max_left FUEL ff0) toks b k _ rfl hne
  rw [hff _ (Nat.le_max_right FUEL ff0)] at this
  exact this.symm

/-- **the plain parse of `toks` from the stack `b` ends as `r`**: for every large enough fuel of
`feed`, and at the model's constant `FUEL` unless the plain parse runs out of fuel there
(`plainFrom … = other`) -/
def PlainIs (G : Grammar) (A : Automaton) (b toks : List Nat) (r : PlainOut) : Prop :=
  (∃ ff0, ∀ ff, ff0 ≤ ff → plainFromF G A ff b toks 0 = r) ∧
  (plainFrom G A b toks 0 ≠ .other → plainFrom G A b toks 0 = r)

theorem plainIs_of_large {G : Grammar} {A : Automaton} {b toks : List Nat} {r : PlainOut}
    (h : ∃ ff0, ∀ ff, ff0 ≤ ff → plainFromF G A ff b toks 0 = r) : PlainIs G A b toks r :=
  ⟨h, plainFrom_of_large h⟩

/-- the answer at `FUEL`, when it is a proper one, is the answer for every large enough fuel -/
theorem plainIs_of_plainFrom {G : Grammar} {A : Automaton} {b toks : List Nat} {r : PlainOut}
    (h : plainFrom G A b toks 0 = r) (hr : r ≠ .other) : PlainIs G A b toks r := by
  refine ⟨⟨FUEL, fun ff hff => ?_⟩, fun _ => h⟩
  rw [← plainFromF_FUEL] at h
  exact plainFromF_mono hff toks b 0 r h hr

end GrmVerif.C05
