import GrmVerif.Lemmas.CpctRun
import GrmVerif.Lemmas.KeptCertEx
/-!
The certified merged LALR automaton of `Lemmas/KeptCertEx.lean` (`S: x A c | y A d | x B f | y B g;
A: a; B: a e`, 14 states, item sets included) with the `state_actions` view filled in, as the search of
the modelled recoverer needs it: the concrete instance for the non-vacuity examples of the capstone
theorems (`Props/C05.lean`, `Props/C06.lean`, `Props/C07.lean`).
-/
namespace GrmVerif.Cpct
open GrmVerif LR Rec RankImpl SearchImpl C05

deriving instance DecidableEq for Rec.Pos, Rec.Err

/-- `exA2` with `state_actions(st)` = the tokens whose action in `st` is not `Error` -/
def exA3 : Automaton :=
  { exA2 with states := exA2.states.map (fun sd =>
      { sd with stateActions := (List.range 9).filter (fun t => (sd.actions[t]?).getD .error != .error) }) }

/-- the parser of the example: input `x a d`, every token costs 1, `PARSE_AT_LEAST = 3` -/
def exE : Env := ⟨exG2, exA3, [0, 2, 4], fun _ => 1, 3⟩

/-- the modelled recoverer of the example: `HashSet` order `dedup`, no `%avoid_insert`, lexemes 2 bytes
long with 1-byte gaps, `TRY_PARSE_AT_MOST = 250`, a search budget of 200 iterations -/
def exRec : Pos → Option (Pos × List (List Repair)) :=
  cpctRecover exE dedup (fun _ => false) (fun i => 3 * i + 1) 250 200

theorem ex3_cert : wholeRunCert exG2 exA3 = true := by decide
theorem ex3_sa : stateActionsExactB exG2 exA3 = true := by decide
theorem ex3_cost : ∀ t, 1 ≤ exE.cost t := fun _ => Nat.le_refl _
theorem ex3_inputOk : Cert.InputOk exG2 [0, 2, 4] := by
  intro t ht
  simp only [List.mem_cons, List.not_mem_nil, or_false] at ht
  rcases ht with rfl | rfl | rfl <;> decide

end GrmVerif.Cpct
