import GrmVerif.Lemmas.KeptShift
/-! `colsOk` is free for dumped automata: the wire format carries exactly `ntoks` action cells per
state (`parseActs G.ntoks`), so every automaton `parseAutomaton` hands to the driver satisfies it. -/
namespace GrmVerif.C05
open GrmVerif

theorem parseActs_length : ∀ (n : Nat) (l : List Nat) (as : List Act) (r : List Nat),
    parseActs n l = some (as, r) → as.length = n := by
  intro n
  induction n with
  | zero => intro l as r h; simp [parseActs] at h; simp [h.1.symm]
  | succ n ih =>
    intro l as r h
    match l, h with
    | 0 :: rest, h =>
      simp only [parseActs, Option.map_eq_some_iff] at h
      obtain ⟨⟨as', r'⟩, h1, h2⟩ := h
      simp only [Prod.mk.injEq] at h2
      rw [← h2.1]; simp [ih rest as' r' h1]
    | 1 :: s :: rest, h =>
      simp only [parseActs, Option.map_eq_some_iff] at h
      obtain ⟨⟨as', r'⟩, h1, h2⟩ := h
      simp only [Prod.mk.injEq] at h2
      rw [← h2.1]; simp [ih rest as' r' h1]
    | 2 :: s :: rest, h =>
      simp only [parseActs, Option.map_eq_some_iff] at h
      obtain ⟨⟨as', r'⟩, h1, h2⟩ := h
      simp only [Prod.mk.injEq] at h2
      rw [← h2.1]; simp [ih rest as' r' h1]
    | 3 :: rest, h =>
      simp only [parseActs, Option.map_eq_some_iff] at h
      obtain ⟨⟨as', r'⟩, h1, h2⟩ := h
      simp only [Prod.mk.injEq] at h2
      rw [← h2.1]; simp [ih rest as' r' h1]

theorem parseState_actions (G : Grammar) (l : List Nat) (sd : StateD) (r : List Nat)
    (h : parseState G l = some (sd, r)) : sd.actions.length = G.ntoks := by
  simp only [parseState, bind, Option.bind_eq_some_iff] at h
  obtain ⟨⟨core, l1⟩, _, ⟨closed, l2⟩, _, h⟩ := h
  simp only at h
  cases l2 with
  | nil => simp at h
  | cons n l3 =>
    simp only [Option.bind_some, Option.bind_eq_some_iff] at h
    obtain ⟨⟨edges, l4⟩, _, ⟨acts, l5⟩, hacts, h⟩ := h
    simp only at h hacts
    split at h
    · cases h
    · simp only [Option.bind_eq_some_iff] at h
      obtain ⟨⟨sa, l6⟩, _, ⟨ss, l7⟩, _, ⟨cr, l8⟩, _, h⟩ := h
      simp only at h
      cases l8 with
      | nil => simp at h
      | cons ro l9 =>
        simp only [Option.some.injEq, Prod.mk.injEq] at h
        rw [← h.1]
        exact parseActs_length _ _ _ _ hacts

theorem parseStates_actions (G : Grammar) : ∀ (n : Nat) (l : List Nat) (ss : List StateD) (r : List Nat),
    parseStates G n l = some (ss, r) → ∀ sd ∈ ss, sd.actions.length = G.ntoks := by
  intro n
  induction n with
  | zero => intro l ss r h; simp [parseStates] at h; intro sd hsd; rw [h.1] at hsd; cases hsd
  | succ n ih =>
    intro l ss r h
    simp only [parseStates] at h
    cases h1 : parseState G l with
    | none => rw [h1] at h; cases h
    | some x =>
      obtain ⟨s, l'⟩ := x
      rw [h1] at h
      simp only at h
      cases h2 : parseStates G n l' with
      | none => rw [h2] at h; cases h
      | some y =>
        obtain ⟨ss', r'⟩ := y
        rw [h2] at h
        simp only [Option.some.injEq, Prod.mk.injEq] at h
        intro sd hsd
        rw [← h.1] at hsd
        rcases List.mem_cons.mp hsd with rfl | hsd
        · exact parseState_actions G l _ _ h1
        · exact ih l' ss' r' h2 sd hsd

/-- **every parsed automaton dump satisfies `colsOk`**: a state is read with exactly `ntoks` action
cells -/
theorem parseAutomaton_colsOk (G : Grammar) (l : List Nat) (A : Automaton) (r : List Nat)
    (h : parseAutomaton G l = some (A, r)) : colsOk G A = true := by
  match l, h with
  | n :: start :: l, h =>
    simp only [parseAutomaton] at h
    cases h1 : parseStates G n l with
    | none => rw [h1] at h; cases h
    | some x =>
      obtain ⟨states, l1⟩ := x
      rw [h1] at h
      simp only at h
      have hall := parseStates_actions G n l states l1 h1
      have hA : A.states = states := by
        split at h
        · split at h
          · cases h
          · split at h
            · split at h
              · cases h
              · simp only [Option.some.injEq, Prod.mk.injEq] at h; rw [← h.1]
            · cases h
        · cases h
      simp only [colsOk, List.all_eq_true, decide_eq_true_eq]
      intro sd hsd
      rw [hA] at hsd
      exact Nat.le_of_eq (hall sd hsd)

end GrmVerif.C05
