import GrmVerif.Drive.C19
import GrmVerif.Drive.C17
import GrmVerif.Drive.Table
import GrmVerif.Drive.C01
import GrmVerif.Drive.C08
import GrmVerif.Drive.C05
import GrmVerif.Drive.C02
import GrmVerif.Drive.C04
import GrmVerif.Drive.C09
import GrmVerif.Drive.C11
import GrmVerif.Drive.C12
import GrmVerif.Drive.C20
import GrmVerif.Drive.C18
import GrmVerif.Drive.C15
import GrmVerif.Drive.C10
import GrmVerif.Drive.C13
import GrmVerif.Drive.C14
/-! `gvdriver`: one request per line `<prop> <case-id> <nat>…`; replies are prefixed with the case id. -/
open GrmVerif.Drive

def dispatch (prop : String) (args : List Nat) : String :=
  match prop with
  | "C19" => C19.handle args
  | "C17" => C17.handle args
  | "C03" => C03.handle args
  | "C16" => C16.handle args
  | "C01" => C01.handle args
  | "C08" => C08.handle args
  | "C02" => C02.handle args
  | "C05" => C05.handle args
  | "C06" => C05.handle args
  | "C07" => C05.handle args
  | "C04" => C04.handle args
  | "C09" => C09.handle args
  | "C11" => C11.handle args
  | "C12" => C12.handle args
  | "C20" => C20.handle args
  | "C18" => C18.handle args
  | "C15" => C15.handle args
  | "C10" => C10.handle args
  | "C13" => C13.handle args
  | "C14" => C14.handle args
  | _ => "bad-prop"

def prefixLines (id : String) (s : String) : String :=
  "\n".intercalate ((s.splitOn "\n").map (fun l => id ++ " " ++ l))

partial def loop (h : IO.FS.Stream) (out : IO.FS.Stream) : IO Unit := do
  let line ← h.getLine
  if line.isEmpty then return ()
  let toks := (line.trimAscii.toString.splitOn " ").filter (· ≠ "")
  match toks with
  | prop :: id :: rest =>
    match parseNats rest with
    | some args => out.putStrLn (prefixLines id (dispatch prop args))
    | none => out.putStrLn (id ++ " bad-request")
  | _ => out.putStrLn "? bad-request"
  loop h out

def main : IO Unit := do
  let out ← IO.getStdout
  loop (← IO.getStdin) out
  out.flush
