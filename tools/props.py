"""Per-property configuration of tools/check.py: collected from tools/propcfg/Cnn.py."""
import importlib, os, sys
_d = os.path.dirname(os.path.abspath(__file__))
sys.path.insert(0, _d)
PROPS = {}
MANIFESTS = {}
for _f in sorted(os.listdir(os.path.join(_d, "propcfg"))):
    if _f.startswith("C") and _f.endswith(".py"):
        _m = importlib.import_module("propcfg." + _f[:-3])
        PROPS[_f[:-3]] = _m.CONFIG
        MANIFESTS[_f[:-3]] = _m.MANIFEST
