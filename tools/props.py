"""Per-property configuration of tools/check.py."""

STD_TRUST = [
    "Lean 4.33.0 kernel; axioms audited per theorem by `#print axioms` (allowed: propext, Classical.choice, Quot.sound)",
    "hand-written Lean model of the anchored Rust code, tied to /repo by the correspondence run of this check (differential: reach bounded by the generators, distribution in coverage.input_distribution)",
    "tools/check.py, tools/extract.py, harness/ (generation, dumping, canonicalisation, SplitMix64), the compiled gvdriver (Lean compiler + C toolchain)",
]

PROPS = {
    "C19": {
        "props_modules": ["C19"],
        "level": "proof",
        "tie": "NewlineCache queries (line number at every byte offset, line/column at every boundary, span_line_bytes on every boundary span) equal Model/Newline.lean on identical texts and chunkings",
        "rule": "texts: fixed corpus + every text over {a,\\n,\\r,e-acute} up to length 4 (quick) / 6 (thorough) with every 3-piece chunking up to length 3 + random texts over an alphabet with LF, CR and 2/3/4-byte characters with random chunkings; per text every byte offset, boundary and boundary span is queried. non-trivial = contains a newline or a multi-byte character; distinct = distinct request line",
        "nontrivial": lambda req, im: any(t in req[0].split(" ")[3:] for t in ("10", "233", "10084", "128512")),
        "trusted_base": STD_TRUST + ["slice::binary_search modelled by its documented Ok/Err contract on strictly increasing slices"],
        "assumptions": ["`src` passed to byte_to_line_num_and_col_num is the text that was fed (documented precondition)"],
    },
}
