#!/bin/sh
# Build the framework from files on disk only (offline): Lean library + native driver, Rust harness.
set -e
cd "$(dirname "$0")/.."
python3 tools/extract.py
(cd lean && lake build GrmVerif gvdriver)
REPO=$(sed -n 's/^cfgrammar *= *{ *path *= *"\(.*\)\/cfgrammar".*/\1/p' harness/Cargo.toml)
cp "${REPO:-/repo}/Cargo.lock" harness/Cargo.lock
(cd harness && CARGO_NET_OFFLINE=true cargo build --release --offline)
# the build with /repo's verification hooks compiled in (C02), in its own target directory
(cd harness && CARGO_NET_OFFLINE=true RUSTFLAGS="--cfg grmtools_verif" CARGO_TARGET_DIR=target/hook cargo build --release --offline)

# the plain release build (cfgrammar without debug assertions) that C20 runs against
(cd harness && CARGO_NET_OFFLINE=true CARGO_TARGET_DIR=target/plain cargo build --release --offline --config profile.release.package.cfgrammar.debug-assertions=false)
