#!/bin/sh
# Build the framework from files on disk only (offline): Lean library + native driver, Rust harness.
set -e
cd "$(dirname "$0")/.."
python3 tools/extract.py
(cd lean && lake build GrmVerif gvdriver)
cp /repo/Cargo.lock harness/Cargo.lock
(cd harness && CARGO_NET_OFFLINE=true cargo build --release --offline)
