"""Texts of MANIFEST.json entries (see tools/gen_manifest.py)."""
HOOK_COMMITS = []

ALL = ["C%02d" % i for i in range(1, 21)]

CHECKS = {
    "C19": {
        "category": "proof",
        "design_ref": "DESIGN.md §5 C19",
        "technique": "Lean 4 theorems over a faithful model of NewlineCache + equality correspondence with the Rust code",
        "text": "Theorems (Props/C19.lean): feeding in any chunks = feeding the whole text; line number = 1 + newlines before the offset for every offset; line/column formula for every character boundary with CR LF counted once; span_line_bytes never panics and returns exactly [start of the line containing span.start, end of the line containing offset span.end] for every start <= end. Proved for all texts by induction, no size bound. The model is a line-by-line transcription of newlinecache.rs and is compared with the real code on every query of every generated text on each run.",
        "note": "Trusted: Lean kernel (+propext/Classical.choice/Quot.sound), the transcription (checked differentially, incl. all texts over a 4-letter alphabet up to length 4/6 and every chunking of the short ones), binary_search modelled by its contract, harness and orchestrator. The LRNonStreamingLexer glue (line_col, span_lines_str) is checked against the cache on the same cases, not modelled.",
    },
}

_REASON = "not yet built in this round: no Lean model/tie committed for it yet (see DESIGN.md §8 for the build order); it is not claimed rather than decided by another technique"
NOT_APPLICABLE = [{"property_id": p, "reason": _REASON} for p in ALL if p not in CHECKS]
