"""Texts of MANIFEST.json entries (see tools/gen_manifest.py); per-property text is in tools/propcfg/."""
from props import MANIFESTS
HOOK_COMMITS = []
ALL = ["C%02d" % i for i in range(1, 21)]
CHECKS = MANIFESTS
_REASON = "not yet built in this round: no Lean model/tie committed for it yet (see DESIGN.md §8 for the build order); it is not claimed rather than decided by another technique"
NOT_APPLICABLE = [{"property_id": p, "reason": _REASON} for p in ALL if p not in CHECKS]
