"""Texts of MANIFEST.json entries (see tools/gen_manifest.py); per-property text is in tools/propcfg/."""
from props import MANIFESTS
# commits in /repo that add verification hooks (guard `grmtools_verif`; code is only added): full hashes.
# 27a1a55 "verif hook: pager trace under cfg(grmtools_verif)" — lrtable/src/lib/pager.rs, lrtable/src/lib/mod.rs;
# used by C02 (the trace of `pager_stategraph` the Lean model of the construction replays); the same change as a
# patch file: patches/0001-verif-hook-pager-trace-under-cfg-grmtools_verif.patch
HOOK_COMMITS = ["27a1a559da6d71df14b5d8c8a114c18cd304ddad"]
ALL = ["C%02d" % i for i in range(1, 21)]
CHECKS = MANIFESTS
_REASON = "not yet built in this round: no Lean model/tie committed for it yet (see DESIGN.md §8 for the build order); it is not claimed rather than decided by another technique"
NOT_APPLICABLE = [{"property_id": p, "reason": _REASON} for p in ALL if p not in CHECKS]
