#!/usr/bin/env python3
"""Apply one seeded change to /repo, run the property's check(s), undo, record the verdict.
usage: tools/seedrun.py Cnn K [--also Cmm,...] [--tier quick|thorough]
The patch is taken from /verif/seeded/Cnn/patchK.diff (copied there from the sub-agent's demo dir
if /tmp/seed/Cnn.demo exists). Never commits anything in /repo."""
import json, os, re, shutil, subprocess, sys, time
V = '/verif'
def sh(cmd, **kw):
    return subprocess.run(cmd, shell=True, text=True, capture_output=True, **kw)
def main():
    pid, k = sys.argv[1], sys.argv[2]
    also = []; tier = 'quick'
    a = sys.argv[3:]
    while a:
        if a[0] == '--also': also = a[1].split(','); a = a[2:]
        elif a[0] == '--tier': tier = a[1]; a = a[2:]
        else: a = a[1:]
    d = f'{V}/seeded/{pid}'
    os.makedirs(d, exist_ok=True)
    src = f'/tmp/seed/{pid}.demo'
    if os.path.isdir(src):
        for f in os.listdir(src):
            p = os.path.join(src, f)
            if os.path.isfile(p) and os.path.getsize(p) < 300_000 and not f.endswith('.log'):
                shutil.copy(p, os.path.join(d, f))
    patch = f'{d}/patch{k}.diff'
    st = sh('git -C /repo status --porcelain')
    if st.stdout.strip():
        print('refusing: /repo has local changes'); sys.exit(2)
    r = sh(f'git -C /repo apply {patch}')
    if r.returncode != 0:
        print('patch does not apply:', r.stderr); sys.exit(2)
    res = {}
    try:
        for prop in [pid] + also:
            t0 = time.time()
            r = sh(f'cd {V} && timeout 3600 python3 tools/check.py {prop} --tier {tier}')
            lines = [l for l in r.stdout.splitlines() if l.startswith('VIOLATION') or l.startswith('KNOWN-FINDING')]
            viol = [l for l in lines if l.startswith('VIOLATION')]
            # keep the first replay as an example
            ex = None
            if viol:
                m = re.search(r'replay=(\S+)', viol[0])
                if m and os.path.exists(f'{V}/{m.group(1)}'):
                    ex = open(f'{V}/{m.group(1)}').read()[:4000]
            res[prop] = {'exit': r.returncode, 'tier': tier, 'violations': len(viol),
                         'no_failing_input_found_only': bool(viol) and all('no-failing-input-found' in l for l in viol),
                         'first_lines': viol[:3], 'example_replay': ex, 'wall_s': round(time.time() - t0, 1),
                         'summary': [l for l in r.stdout.splitlines() if l.startswith(prop + ' [')][-1:]}
    finally:
        # the runs above rewrote evidence/ and the extracted constants from the CHANGED tree: put the
        # committed ones back
        sh(f'git -C {V} checkout -- evidence lean/GrmVerif/Extracted.lean')
        sh('git -C /repo checkout -- .')
        sh(f'cd {V} && rm -rf replays/*')
    mp = f'{d}/meta.json'
    meta = json.load(open(mp)) if os.path.exists(mp) else {'property': pid, 'changes': {}}
    ent = meta['changes'].setdefault(str(k), {})
    ent.setdefault('patch', f'patch{k}.diff'); ent.setdefault('demonstration', f'demo{k}.md')
    ent.setdefault('runs', {}).update(res)
    ent['caught_by'] = sorted(p for p, v in ent['runs'].items() if v['violations'] > 0)
    json.dump(meta, open(mp, 'w'), indent=1)
    for p, v in res.items():
        print(pid, k, p, 'CAUGHT' if v['violations'] else 'MISSED', v['first_lines'][:1], v['wall_s'])
main()
