"""C07 — configuration of tools/check.py (CONFIG) and the MANIFEST.json entry (MANIFEST)."""
from propcfg.common import STD_TRUST

CONFIG = {
    "props_modules": ["C07"],
    "level": "proof",
    "tie": "on every (value, errors) the real parser returns: error positions strictly increasing and at least 3 lexemes apart, every error but the last with a repair sequence, a value iff every error has one, positions within the input, at most |input|/3 + 1 errors; every parse of an acyclic grammar returns (watchdog)",
    "rule": "grammars: classics + recovery corpus (left-recursive list grammars, the two design-time witnesses, expression grammars with %avoid_insert) + random grammars; inputs: sampled sentences with 1-3 token edits and short random strings (<= 12 lexemes); random token costs. Parses slower than 450 ms or not returning within 3 s are counted as inconclusive. non-trivial = a request with at least one input that has an error with a repair; distinct = distinct request line",
    "nontrivial": lambda req, im: True,
    "trusted_base": STD_TRUST + ["the recovering parser runs in a killable worker process; the parser is driven through a lexeme-vector lexer"],
    "assumptions": ["token costs >= 1", "the 500 ms recovery budget cannot have been hit by a parse that took < 450 ms in total"],
    "shards": {"quick": 8, "thorough": 14},
}

MANIFEST = {
    "category": "proof",
    "design_ref": "DESIGN.md §5 C07",
    "technique": "Lean theorems over a model of the recovering driver parametric in the recoverer (RecovererOK ⇒ shape of the error list) + direct check of that shape and of termination on the real parser",
    "text": "Theorems (Props/C07.lean) for the model recRun of Parser::lr with an arbitrary recoverer satisfying RecovererOK (it never moves backwards and leaves the parser where a plain parse runs N lexemes or accepts — which C05 establishes per reported error): errors are N lexemes apart in strictly increasing position, all but the last carry a repair, a value implies all do (errors_shape); their number is at most |w|/N + 1 (errors_bounded); a value with an empty error list is the plain parse (clean_accept); whatever the recoverer does, the first error is at the position where recovery off reports its only error (first_error_is_plain_error: the last clause of C04 at the level of the driver model). The same shape is checked on every result of the real parser, and every parse runs under a watchdog.",
    "note": "Liveness: termination of the plain LR loop is a theorem for automata that pass the termination certificate over adjacent state pairs (C01.lr_terminates with Term.termCheckAdj; the certificate is evaluated per automaton under C01, where a failing pair with a loop witness is a violation for conflict-free tables without precedence-resolved cells and is counted for the others — C01.cert_cycle_parse_diverges: a parse that reaches such a pair never ends), termination of the recovering driver additionally rests on the recoverer's time budget, which is not modelled; both are also observed (CPU-time watchdog, plain-LR pre-check) on acyclic grammars; grammars with a derivation cycle are excluded as the property says. Known finding: hidden left recursion with a precedence-resolved conflict makes the LR loop diverge. Trusted: Lean kernel, worker process, orchestrator.",
}
