"""C12 — configuration of tools/check.py (CONFIG) and the MANIFEST.json entry (MANIFEST)."""
from propcfg.common import STD_TRUST

CONFIG = {
    "props_modules": ["C12"],
    "level": "proof",
    "tie": "GrmtoolsSectionParser::parse (required = false and true) returns exactly what Model/Header.lean returns on the same text: Ok/Err, end position, every key, value shape and span, every error kind and span list",
    "rule": "texts: corpus/C12 (witnesses + real .y/.l files) and generated valid %grmtools sections, .y grammars (all YaccKinds) and .l specifications; each with its mutation stream (truncation at every offset, multi-byte character inserted at every offset, deleted/inserted delimiter, huge numbers, text- and byte-level splices repaired to valid UTF-8) plus size stress cases. Every text goes through the header parser twice and through the entry points of its category (yacc: ASTWithValidityInfo::new and YaccGrammar::new for 5 YaccKinds, both from_str; lex: from_str, new_with_options), each in a worker process under catch_unwind with a 2.5 s watchdog (confirmed with 10 s). non-trivial = the text contains %grmtools; distinct = distinct request line",
    "nontrivial": lambda req, im: " 37 103 114 109 116 111 111 108 115 " in req[0],
    "trusted_base": STD_TRUST + [
        "the regex crate's semantics for the four anchored regular expressions of header.rs, transcribed by hand as Lean functions (reName, reDigits, reString, takeWhile isPWS) and compared differentially",
        "str::parse::<u64> and char::to_lowercase modelled on the characters the regexes admit",
    ],
    "assumptions": ["input is a Rust &str, i.e. valid UTF-8 (modelled as List Char)"],
}

MANIFEST = {
    "category": "proof",
    "design_ref": "DESIGN.md §5 C12",
    "technique": "Lean 4 theorems over a faithful model of GrmtoolsSectionParser (panics and non-termination explicit) + equality correspondence with the Rust code; mass mutation under catch_unwind and a process-level watchdog for the yacc and lex parsers, spans checked by a Lean checker proved equivalent to the declarative definition",
    "text": "Theorems (Props/C12.lean), all for every text and both values of `required`, about Model/Header.lean, a line-by-line transcription of GrmtoolsSectionParser (parse, parse_key_value, parse_setting with arrays and Kind::Variant(arg) constructors, parse_namespaced, parse_name, parse_ws, lookahead_is, add_duplicate_occurrence) in which slicing off a character boundary or out of range is an explicit panic and every loop takes fuel: header_total (a value or a non-empty error list), header_no_panic, header_terminates (|src|+1 units of fuel always suffice: every iteration of the array loop, of the nested recursion and of the key/value loop consumes a byte), header_error_spans_wf (every error has a span; every span start<=end<=|src| on character boundaries), header_result_spans_wf (same for the end position and every span in the returned header), span_checker_correct / outcome_checker_correct (the Bool checker the driver runs on the implementation's spans is equivalent to the declarative definition). On each run the real parser and the model are compared on every generated text (result kind, end position, keys, value shapes, all spans, error kinds), and all three parser families are run on the mutation stream under catch_unwind and a process-level watchdog, every error rendered with SpannedDiagnosticFormatter::format_error, every span checked by the verified checker.",
    "note": "Proved in Lean: only the %grmtools section parser (header.rs), on the repaired code. NOT modelled or proved: the yacc parser (yacc/parser.rs, ast.rs) and the lex parser (lrlex parser.rs, lexer.rs); for these totality, absence of panics/hangs and span well-formedness are only exercised differentially on the generated and mutated texts (bounded by the generators: texts up to a few KB, a 2.5 s per-call watchdog), which is testing, not proof. Trusted: Lean kernel (+propext/Classical.choice/Quot.sound), the hand transcription of the four anchored regexes and of u64 parsing/lower-casing (compared differentially on each run, including U+017F/U+212A names, Pattern_White_Space characters and u64 boundary values), harness, orchestrator. Native stack exhaustion on extremely deep `[[[[…` nesting is outside the model (Rust recursion depth is not modelled); nesting 3000 deep is exercised. Five defects were found and repaired (array loop hang, u64 unwrap, new_with_options unwrap, lex spans relative to the text after the section, CRLF multi-line span rendering).",
}
