"""C03 — configuration of tools/check.py (CONFIG) and the MANIFEST.json entry (MANIFEST)."""
from propcfg.common import STD_TRUST

CONFIG = {
    "props_modules": ["C03"],
    "level": "proof",
    "tie": "every action cell, state_actions/state_shifts/core_reduces/reduce_only view and the conflict lists of StateTable equal Model/Table.lean on the dumped item sets (same iteration order) and edges; CTParserBuilder::build fails iff the specification says so",
    "rule": "grammars: classics + conflict/precedence corpus + random grammars with random %left/%right/%nonassoc lines, %prec overrides and %expect/%expect-rr set to absent/equal/off-by-one; each with error_on_conflicts on (7/8) or off. non-trivial = at least one cell with more than one candidate action; distinct = distinct request line",
    "nontrivial": lambda req, im: any(" rr " in l and (l.split(" rr ")[1].split(" sr ")[0].strip() or l.split(" sr ")[1].strip()) for l in im.get("I", [])) or any("r" in l for l in im.get("I", [])),
    "trusted_base": STD_TRUST + ["cells are modelled one by one (cells of different (state, token) pairs do not interact in StateTable::new)"],
    "assumptions": ["table construction succeeded (grammars with an accept/reduce conflict are counted and skipped here)"],
    "shards": {"quick": 4, "thorough": 12},
}

MANIFEST = {
    "category": "proof",
    "design_ref": "DESIGN.md §5 C03",
    "technique": "Lean 4 model of StateTable::new per cell + Yacc-rule specification; equality correspondence on every cell of every generated automaton",
    "text": "The cell-wise model of StateTable::new (reduce/accept loop in hash iteration order, then edge loop with resolve_shift_reduce) is compared with every cell, view and conflict record of the real table; independently the declarative Yacc rules (earliest production among reductions, then precedence/associativity against the winner, %nonassoc = error, shift when either side lacks precedence) and the conflict counts they imply are compared with the implementation, and CTParserBuilder::build must fail exactly when those counts differ from %expect/%expect-rr (default 0).",
    "note": "Theorems (Props/C03.lean): table_cell_spec (model cell = Yacc-rule specification), table_order_indep (any item iteration order gives the same cell), conflicts_exact, prec_panic_unreachable, expect_iff. Trusted: Lean kernel, harness dump through the public StateGraph/StateTable API, orchestrator.",
}
