"""C16 — configuration of tools/check.py (CONFIG) and the MANIFEST.json entry (MANIFEST)."""
from propcfg.common import STD_TRUST

CONFIG = {
    "props_modules": ["C16"],
    "level": "proof",
    "tie": "state_actions/state_shifts/core_reduces/reduce_only and every cell equal Model/Table.lean; every dumped closed state equals the verified reference closure of its core AND the map computed by the model of Itemset::close (Model/CloseImpl.lean) run on the dumped core in the dumped hash-map key order; every state is in the verified reachable set; shift and goto targets equal the graph's edges",
    "rule": "grammars: classics + conflict/precedence corpus (incl. %nonassoc-removed cells) + random grammars with precedence declarations; every state x every token and rule. non-trivial = automaton with at least 4 states; distinct = distinct request line",
    "nontrivial": lambda req, im: len(" ".join(im.get("I", [""])).split(" sa ")[0].split(" ")) > 4,
    "trusted_base": STD_TRUST,
    "assumptions": ["table construction succeeded (accept/reduce-conflict grammars are counted and skipped)"],
    "shards": {"quick": 4, "thorough": 12},
}

MANIFEST = {
    "category": "proof",
    "design_ref": "DESIGN.md §5 C16",
    "technique": "Lean 4 theorems about the model of the derived table views and about the model of the closure algorithm Itemset::close + verified reference closure/reachability compared with the dumped state graph",
    "text": "Theorems (Props/C16.lean): the state_actions bit of a cell is set iff its final action is not an error; state_shifts = the shift cells; core_reduces holds exactly one production per distinct (rule, length) among the row's reductions and nothing else; reduce_only iff no shift/accept and exactly one such pair; a shift's target is the edge on that token; on a certified automaton goto and shift targets equal the graph's edges; the reference LR(1) closure is the least closed superset of the kernel (closure_exact) and the reference reachable set is exact (reachable_exact); both reference computations always terminate with an answer (closure_total, reachable_total). The algorithm itself: Model/CloseImpl.lean transcribes Itemset::close (work list = keys iterator then lowest set bit of zero_todos, lookahead = FIRST sets or-ed along the tail with the nullable flag and break, the inherited context read from the map, Itemset::add and Vob::or with their changed flags, every out-of-range index a panic); close_impl_exact: for every well-formed grammar, exact nullable/FIRST oracles, kernel with distinct keys and EVERY order in which the hash map may yield the kernel's keys, the loop ends normally within |order| + |fact universe| + 1 iterations (no panic) and the resulting map has distinct keys and denotes exactly the inductively defined LR(1) closure (same items, same lookahead set per item); close_impl_eq_reference: hence the same fact set as the reference close1; close_impl_order_irrelevant: two key orders give maps with the same items and lookaheads; close_impl_check_sound: the driver's comparison sameItems(model map, dumped closed state) holds iff the dumped state denotes exactly the closure. Every dumped automaton is compared: views with the model, closed states with the reference closure of their core AND with the model of Itemset::close run on the dumped core (equality of item sets AND lookahead sets, empty-lookahead items included; counted separately in driver_counts closure_reference_differs / closure_model_of_close_differs), reachability of all states.",
    "note": "Per-automaton validation against verified references; the grammar quantifier is sampled. The closure algorithm is proved for all grammars, kernels and hash orders at model level; the tie model<->Rust of Itemset::close is the per-state comparison (nullable/FIRST oracles of the model are the verified reference analyses, which C17 compares with YaccFirsts). The bit-level encode/decode round trip is C20.action_roundtrip. Trusted: Lean kernel, dump through the public API, orchestrator.",
}
