"""C09 — configuration of tools/check.py (CONFIG) and the MANIFEST.json entry (MANIFEST)."""
from propcfg.common import STD_TRUST

CONFIG = {
    "props_modules": ["C09"],
    "level": "proof",
    "tie": "lexeme stream of LRNonStreamingLexerDef::lexer (token ids, spans, error span and lexing state) and the results of set_rule_ids/set_rule_ids_spanned (ids per rule, both reported sets) equal Model/Lex.lean on identical rule metadata, with the match-length table of every rule at every character boundary tabulated by the harness's own regex::Regex",
    "rule": "definitions: fixed corpus (leftmost-first alternations, ties, repeated pushes/pops, inclusive vs exclusive, multi-byte, unset ids, from_rules oddities) + 4000 (quick) / 40000 (thorough) generated definitions, 70% rendered as .l text with random layout and %grmtools flags and parsed by from_str, 30% built directly with Rule::new/from_rules (duplicate names, unset ids, missing/duplicate states); 4-5 inputs each over an alphabet with 2/3/4-byte characters; 30% of the definitions get their ids synchronised with a generated name->id map first (also checked as a case of its own). non-trivial = a lexing case with at least one lexeme, or a synchronisation case; distinct = distinct request line",
    "nontrivial": lambda req, im: req[0].split(" ")[2] == "1" or any(x.startswith("T ") for x in im.get("I", [])),
    "shards": {"quick": 4, "thorough": 8},
    "trusted_base": STD_TRUST + [
        "the regex crate (regex/regex-syntax) is modelled as a parameter `ml : rule -> offset -> Option length`; its values are tabulated by the harness with an independently built anchored Regex (\\A(?:re), same documented flags) on the slice starting at the offset",
        "(id, exclusive) of StartState and the id inside StartStateId have no accessor and are read from their derived Debug text",
    ],
    "assumptions": [
        "rule_ids_map has distinct keys (it is a HashMap)",
        "ids_sync_spec: rule names are pairwise distinct (guaranteed by the .l parser: DuplicateName; definitions assembled with from_rules can violate it, those cases are compared with the model only)",
        "tiling_ends: a match reported by the matcher at offset i lies inside the input (len <= n - i)",
    ],
}

MANIFEST = {
    "category": "proof",
    "design_ref": "DESIGN.md §5 C09",
    "technique": "Lean 4 theorems over a faithful model of the scan loop of LRNonStreamingLexerDef::lexer (regex engine as a parameter, run-length encoded start-state stack) + equality correspondence with the Rust code",
    "text": "Theorems (Props/C09.lean), for every definition, matcher and input length: the run-length encoded stack refines a plain stack under every operation sequence; the rule chosen by the scan is the active rule with the longest non-empty match, least index among the maxima, and the scan reports 'no match' exactly when no active rule has a non-empty match; the event list satisfies the declarative run relation Tiles (contiguous from 0, in order, each step the longest/earliest choice under the plain stack, ending at the input's end or at one final error placed at the first position where no active rule matches / the winner's id is unset), which determines the list uniquely; the loop terminates within |input| iterations without panic; the reference lexer used as oracle equals the model; set_rule_ids_spanned assigns map[name] to every named rule and reports exactly the names missing on either side (None iff the set is empty) when rule names are distinct.",
    "note": "Trusted: Lean kernel (+propext/Classical.choice/Quot.sound), the transcription (checked differentially on every run), the regex crate (modelled as a parameter; tabulated independently by the harness), harness and orchestrator. With duplicate rule names (only constructible through the doc(hidden) from_rules) the 'missing from lexer' set can be wrongly reported empty; such definitions are outside the hypothesis of ids_sync_spec and are compared with the model only.",
}
