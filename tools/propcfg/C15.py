"""C15 — configuration of tools/check.py (CONFIG), the MANIFEST.json entry (MANIFEST) and the audited list of
iterations over randomly seeded hash collections (AUDIT; re-derived from /repo by tools/extract.py on every
run: a site that is not listed here breaks the tie)."""
from propcfg.common import STD_TRUST

_G = "cfgrammar/src/lib/yacc/grammar.rs"
_A = "cfgrammar/src/lib/yacc/ast.rs"
_P = "lrtable/src/lib/pager.rs"
_ST = "lrtable/src/lib/statetable.rs"
_SG = "lrtable/src/lib/stategraph.rs"
_CT = "lrpar/src/lib/ctbuilder.rs"
_CP = "lrpar/src/lib/cpctplus.rs"
_LC = "lrlex/src/lib/ctbuilder.rs"
_LL = "lrlex/src/lib/lexer.rs"

# cls: "irrelevant" = the result is a set / bit vector / lookup table / count, "relevant" = feeds numbering or an
# output order. `model` names the Lean definition/theorem that covers a site that looks order-relevant.
AUDIT = [
    {"file": _G, "fn": "new_from_ast_with_validity_info", "code": "for t in ast.implicit_tokens.as_ref().unwrap().keys() {",
     "cls": "relevant", "status": "DEFECT (unrepaired tree): numbers the `~: T ~` productions in hash order; fixed by commit 'number the Eco implicit-token productions in token index order'",
     "model": "implicitProdsOrig / implicit_prods_order_DEPENDENT, implicit_prods_orig_injective"},
    {"file": _G, "fn": "new_from_ast_with_validity_info", "code": "let mut implicit_tidxs = ast .implicit_tokens .as_ref() .unwrap() .keys() .map(|t| token_map[t]) .collect::<Vec<_>>();",
     "cls": "irrelevant", "status": "repaired form: the collected indices are sorted before use",
     "model": "implicitProds / implicit_prods_order_indep, implicit_prods_sorted"},
    {"file": _G, "fn": "new_from_ast_with_validity_info", "code": "for n in ai.keys() {",
     "cls": "irrelevant", "status": "sets bits of the %avoid_insert Vob", "model": "avoidInsert / avoid_insert_order_indep"},
    {"file": _A, "fn": "complete_and_validate", "code": "for (k, (sp, _)) in self.epp.iter() {",
     "cls": "relevant", "status": "diagnostics only: WHICH unknown %epp token is reported when there are several depends on the order (first one found is returned); a grammar with >= 2 unknown %epp tokens is rejected either way. Not repaired (error choice, not a build output); seen by the harness as section `err` if it ever differs",
     "model": None},
    {"file": _A, "fn": "unused_symbols", "code": "expected_unused_tokens.extend(implicit_tokens.keys()) }",
     "cls": "irrelevant", "status": "set union", "model": None},
    {"file": _P, "fn": "gc", "code": "let state_i = *todo.iter().next().unwrap();",
     "cls": "irrelevant", "status": "work-set order; only the final `seen` set is used", "model": "gcLoop / gc_reach_spec, gc_reach_order_indep"},
    {"file": _P, "fn": "gc", "code": "todo.extend( edges[usize::from(state_i)] .values() .filter(|x| !seen.contains(x)), );",
     "cls": "irrelevant", "status": "set union", "model": "gcLoop"},
    {"file": _P, "fn": "gc", "code": "for (st_edge_i, st_edges) in edges.drain(..).enumerate() {",
     "cls": "irrelevant", "status": "iterates the Vec of per-state maps in index order", "model": None},
    {"file": _P, "fn": "gc", "code": "gc_edges.push( st_edges .iter() .map(|(&k, &v)| (k, offsets[usize::from(v)])) .collect(), );",
     "cls": "irrelevant", "status": "map -> map with renumbered targets", "model": None},
    {"file": _P, "fn": "pager_stategraph", "code": "for x in gc_edges {", "cls": "irrelevant", "status": "Vec in index order", "model": None},
    {"file": _P, "fn": "pager_stategraph", "code": "for (k, v) in x {", "cls": "irrelevant", "status": "map -> map with StorageT targets", "model": None},
    {"file": _ST, "fn": "new", "code": "for (&sym, ref_stidx) in sg.edges(stidx) {",
     "cls": "relevant", "status": "cells: every edge writes the cell of its own symbol (irrelevant); shift/reduce conflict LIST: recorded in this order and serialised into generated parsers -> DEFECT on the unrepaired tree (generated modules differ between processes), fixed by commit 'list the shift/reduce conflicts of a state in a reproducible order' (sorted per state after the loop)",
     "model": "fillCells / edges_fill_order_indep"},
    {"file": _ST, "fn": "new", "code": "for &pidx in nt_depth.values() {",
     "cls": "irrelevant", "status": "sets bits of core_reduces and counts the newly set ones", "model": None},
    {"file": _SG, "fn": "all_edges_len", "code": "self.edges.iter().fold(0, |a, x| a + x.len()) }", "cls": "irrelevant", "status": "Vec in index order, sum", "model": None},
    {"file": _SG, "fn": "fmt_sym", "code": "let mut edges = self.edges(stidx).iter().collect::<Vec<_>>();", "cls": "irrelevant", "status": "pretty printer; sorted on the next line", "model": None},
    {"file": _SG, "fn": "fmt_sym", "code": "for (esym, e_stidx) in edges {", "cls": "irrelevant", "status": "the sorted Vec above", "model": None},
    {"file": _CT, "fn": "build", "code": "let rule_ids = grm .tokens_map() .iter() .map(|(&n, &i)| (n.to_owned(), i.as_storaget())) .collect::<HashMap<_, _>>();",
     "cls": "irrelevant", "status": "map -> map", "model": None},
    {"file": _CP, "fn": "simplify_repairs", "code": "all_rprs.extend(hs.drain());",
     "cls": "relevant", "status": "DEFECT (unrepaired tree), run time: decides the order of equally ranked repair sequences and thus the repair applied; two parses of one input differed (also between threads of one generated parser). Fixed by commit 'make the order of equally ranked CPCT+ repair sequences reproducible' (unseeded hasher; the site then no longer counts as randomly ordered)",
     "model": None},
    {"file": _LC, "fn": "build", "code": "let mut ctp = CTParserBuilder::<LexerTypesT>::new().inspect_rt(Box::new( move |yacc_header, rtpb, rule_ids_map, grm_path| { let owned_map = rule_ids_map .iter()",
     "cls": "irrelevant", "status": "map -> map", "model": None},
    {"file": _LC, "fn": "build", "code": "let owned_map = rim .iter() .map(|(x, y)| (&**x, *y)) .collect::<HashMap<_, _>>();", "cls": "irrelevant", "status": "map -> map", "model": None},
    {"file": _LC, "fn": "build", "code": "let mut rim_sorted = Vec::from_iter(rim.iter());", "cls": "irrelevant", "status": "sorted on the next line before the token constants are emitted", "model": None},
    {"file": _LC, "fn": "lexerdef", "code": "write!(outs, \" outs.push_str( &syn::parse_str(&unformatted) .map(|syntax_tree| prettyplease::unparse(&syntax_tree)) .unwrap_or(unformatted), ); if let Ok(curs) ",
     "cls": "irrelevant", "status": "scanner artefact (statement joined across a string literal); no hash iteration", "model": None},
    {"file": _LL, "fn": "set_rule_ids_spanned", "code": "Some( rule_ids_map .keys() .cloned() .collect::<HashSet<&str>>() .difference( &self .rules .iter() .filter_map(|x| x.name()) .collect::<HashSet<&str>>(), ) .clo",
     "cls": "irrelevant", "status": "set difference; result is a set (diagnostics list it in hash order)", "model": None},
]
# deterministic although hash based (not "randomly ordered", hence not in AUDIT): Itemset.items uses
# BuildHasherDefault<FnvHasher> (itemset.rs) - its iteration order in pager.rs (`cl_state.items.keys()`: order in which
# new states are numbered) and statetable.rs (`&state.items`: order of reduce/reduce conflict records) is a function of
# the insertion history, which is the same in every process; IndexMap/IndexSet (ast.rules, ast.tokens, dijkstra.rs)
# iterate in insertion order.

CONFIG = {
    "props_modules": ["C15"],
    "level": "proof",
    "tie": "per grammar: M (8 quick / 48 thorough) separate processes give identical digests of every grammar query, every state's core/closed items and edges, every action/goto cell, conflict multisets and the generated parser+lexer modules (BUILD_TIME stripped); the numbering of the implicit-token productions and the %avoid_insert bits equal the Lean model applied to the map orders observed in each process and the order-free specification; the kept states are exactly the reachable ones (verified reachability); 8 threads racing on the OnceLock first use of the generated module's data each reproduce the sequential parse results",
    "rule": "grammars: corpus (Eco with 0/1/2/3/4/6 %implicit_tokens, several S/R and R/R conflicts per state, Pager's example, %expect, every yacc kind) + classics (plain and as Eco with 3 implicit tokens) + random grammars (1-4 rules, 1-4 tokens, precedences, %prec, %avoid_insert; half of them Eco with 0-4 implicit tokens, the rest spread over Original(GenericParseTree/NoAction/UserAction) and Grmtools with generated action code). Each grammar is built in every process; the thread part runs on the first 10 (quick) / 60 (thorough) GenericParseTree grammars per shard with 6 inputs, RecoveryKind::None and CPCTPlus. non-trivial = every case; distinct = distinct request line (observed orders included)",
    "nontrivial": lambda req, im: True,
    "trusted_base": STD_TRUST + [
        "process-level exploration: that 8/48 processes exhibit different hash orders is measured (coverage.input_distribution: hash_orders.*), not guaranteed",
        "std::sync::OnceLock and thread interleavings are not modelled: the thread clause is observation only",
        "tools/extract.py's textual scan for hash iteration sites (heuristic: declared names + aliases); the audit classification in tools/propcfg/C15.py is by hand",
    ],
    "assumptions": ["identical settings include identical (relative) grammar/lexer/output paths: each process runs in its own directory with the same relative file names",
                    "CPCT+ comparisons only on inputs whose recovery takes < 20 ms (far from the 500 ms wall-clock budget, which is inherently timing dependent)"],
    "shards": {"quick": 4, "thorough": 12},
    "timeout": {"quick": 170, "thorough": 1500},
}

MANIFEST = {
    "category": "proof",
    "design_ref": "DESIGN.md §5 C15",
    "technique": "Lean 4 order-independence theorems over all permutations of hash-map iteration orders + multi-process differential run of the whole build pipeline + audited, re-derived list of hash iteration sites",
    "text": "Theorems (Props/C15.lean), for ALL iteration orders: the %avoid_insert bit vector is independent of the key order (avoid_insert_order_indep); pager.rs gc returns exactly the states reachable from the start state whatever element the work set yields next (gc_reach_spec, gc_reach_order_indep); the unrepaired numbering of the Eco `~: T ~` productions differs for every two distinct orders (implicit_prods_order_DEPENDENT, implicit_prods_orig_injective) while the repaired one is order independent, sorted by token index and consecutive (implicit_prods_order_indep, implicit_prods_sorted); filling the action/goto cells of a state from its edges is order independent (edges_fill_order_indep). Tie: every generated grammar is pushed through text -> YaccGrammar -> state graph -> table -> CTLexerBuilder/CTParserBuilder in 8 (quick) / 48 (thorough) separate processes and all digests must coincide; model and specification are evaluated on the map orders actually observed in each process.",
    "note": "The theorems cover the sites classified order-relevant in the audit (tools/propcfg/C15.py AUDIT, re-derived by tools/extract.py on each run; a new unaudited site breaks the tie); the remaining determinism of the pipeline (FNV-hashed item sets, IndexMap, Vec order) is established by exploration across processes only, so the quantifier over grammars and over hash seeds is sampled. Thread interleavings of first use are OBSERVED (8 threads x 6/25 rounds racing on a OnceLock initialised with _reconstitute from the bytes of the generated module), not proved: Lean has no model of OnceLock. Not proved: termination of gc within nstates+1 rounds (the driver reports a fuel-out), and equality of the repaired numbering with the order-free specification implicitProdsSpec (checked differentially on every case). Three defects found and repaired: implicit-token production order, shift/reduce conflict list order inside generated modules, order of equally ranked CPCT+ repair sequences.",
}

# every `static` item of the four library crates (non-test code, `quote!` blocks included), classified
AUDIT_STATICS = [
    {"file": 'cfgrammar/src/lib/yacc/parser.rs', "name": 'RE_NAME', "kind": 'static LazyLock<Regex>',
     "cls": 'immutable: a compiled regular expression, initialised once, never written'},
    {"file": 'cfgrammar/src/lib/yacc/parser.rs', "name": 'RE_TOKEN', "kind": 'static LazyLock<Regex>',
     "cls": 'immutable: a compiled regular expression, initialised once, never written'},
    {"file": 'cfgrammar/src/lib/header.rs', "name": 'RE_LEADING_WS', "kind": 'static LazyLock<Regex>',
     "cls": 'immutable: a compiled regular expression, initialised once, never written'},
    {"file": 'cfgrammar/src/lib/header.rs', "name": 'RE_NAME', "kind": 'static LazyLock<Regex>',
     "cls": 'immutable: a compiled regular expression, initialised once, never written'},
    {"file": 'cfgrammar/src/lib/header.rs', "name": 'RE_DIGITS', "kind": 'static LazyLock<Regex>',
     "cls": 'immutable: a compiled regular expression, initialised once, never written'},
    {"file": 'cfgrammar/src/lib/header.rs', "name": 'RE_STRING', "kind": 'static LazyLock<Regex>',
     "cls": 'immutable: a compiled regular expression, initialised once, never written'},
    {"file": 'lrpar/src/lib/ctbuilder.rs', "name": 'GENERATED_PATHS', "kind": 'static LazyLock<Mutex<HashSet<PathBuf>>>',
     "cls": "build time only: the registry of output paths of one build script (C18's subject), not reachable from a parse"},
    {"file": 'lrpar/src/lib/ctbuilder.rs', "name": 'DATA', "kind": 'static ::std::sync::OnceLock<::lrpar::ParserData<#storaget>>',
     "cls": 'generated parsers: the reconstituted grammar and table, written once (OnceLock) from constant bytes, then read-only - racing first use is exercised by thread_check'},
    {"file": 'lrlex/src/lib/ctbuilder.rs', "name": 'RE_TOKEN_ID', "kind": 'static LazyLock<Regex>',
     "cls": 'immutable: a compiled regular expression, initialised once, never written'},
    {"file": 'lrlex/src/lib/ctbuilder.rs', "name": 'GENERATED_PATHS', "kind": 'static LazyLock<Mutex<HashSet<PathBuf>>>',
     "cls": "build time only: the registry of output paths of one build script (C18's subject), not reachable from a parse"},
    {"file": 'lrlex/src/lib/parser.rs', "name": 'RE_START_STATE_NAME', "kind": 'static LazyLock<Regex>',
     "cls": 'immutable: a compiled regular expression, initialised once, never written'},
    {"file": 'lrlex/src/lib/parser.rs', "name": 'RE_INCLUSIVE_START_STATE_DECLARATION', "kind": 'static LazyLock<Regex>',
     "cls": 'immutable: a compiled regular expression, initialised once, never written'},
    {"file": 'lrlex/src/lib/parser.rs', "name": 'RE_EXCLUSIVE_START_STATE_DECLARATION', "kind": 'static LazyLock<Regex>',
     "cls": 'immutable: a compiled regular expression, initialised once, never written'},
    {"file": 'lrlex/src/lib/parser.rs', "name": 'RE_LEX_ESC_LITERAL', "kind": 'static LazyLock<Regex>',
     "cls": 'immutable: a compiled regular expression, initialised once, never written'},
    {"file": 'lrlex/src/lib/parser.rs', "name": 'RE_LINE_SEP', "kind": 'static LazyLock<Regex>',
     "cls": 'immutable: a compiled regular expression, initialised once, never written'},
    {"file": 'lrlex/src/lib/parser.rs', "name": 'RE_LEADING_LINE_SEPS', "kind": 'static LazyLock<Regex>',
     "cls": 'immutable: a compiled regular expression, initialised once, never written'},
    {"file": 'lrlex/src/lib/parser.rs', "name": 'RE_SPACE_SEP', "kind": 'static LazyLock<Regex>',
     "cls": 'immutable: a compiled regular expression, initialised once, never written'},
    {"file": 'lrlex/src/lib/parser.rs', "name": 'RE_LEADING_SPACE_SEPS', "kind": 'static LazyLock<Regex>',
     "cls": 'immutable: a compiled regular expression, initialised once, never written'},
    {"file": 'lrlex/src/lib/parser.rs', "name": 'RE_LEADING_WS', "kind": 'static LazyLock<Regex>',
     "cls": 'immutable: a compiled regular expression, initialised once, never written'},
    {"file": 'lrlex/src/lib/parser.rs', "name": 'RE_WS', "kind": 'static LazyLock<Regex>',
     "cls": 'immutable: a compiled regular expression, initialised once, never written'},
]
