"""C20 — configuration of tools/check.py (CONFIG) and the MANIFEST.json entry (MANIFEST)."""
from propcfg.common import STD_TRUST

CONFIG = {
    "plain_release": True,
    "props_modules": ["C20"],
    "level": "proof",
    "shards": {"quick": 8, "thorough": 16},
    "timeout": {"quick": 1200, "thorough": 6000},
    "tie": "for every generated grammar text and each of u8/u16/u32: refused-or-accepted per stage (grammar object, state graph, table) and the reported rules_len/tokens_len/prods_len/eof_token_idx/start_prod/max and sum of prod_len/all_states_len equal Model/Width.lean (guards as written, as_() as truncation); lexer definitions: accepted-or-refused and last token id equal the model of StorageT::try_from",
    "rule": "grammars are generated as .y TEXT and built with YaccGrammar::<u8|u16|u32>::new_with_storaget (one shared AST via new_from_ast_with_validity_info only for Eco grammars with >= 2 implicit tokens), lrtable::from_yacc, lrpar::RTParserBuilder (+ lrlex lexer built from a generated .l) under catch_unwind. Families: every single dimension (user rules, tokens, productions, symbols of one production, LR states via a long chain production, Eco implicit-token variants, lexer rules) at source counts 250..258 and — grammar object only in the quick tier, tables and a 65k-state chain in the thorough tier — 65533..65537; random layouts with several dimensions near 255 at once; mid-range sizes; 500 (quick) / 4000 (thorough) random small grammars with 3 inputs each, a sample also with CPCT+ recovery. Per case and width: S = accepted stages must report the true sizes and these must fit w bits, H = every accepting width equals u32 in all names, productions, precedences, FIRST sets, canonically renumbered table actions/gotos/core items, parse trees, error positions, repairs and lexer output. non-trivial = a width refused something or tables were compared; distinct = distinct request line",
    "nontrivial": lambda req, im: ("refused" in " ".join(im.get("I", []))) or (" t:ok" in " ".join(im.get("I", []))),
    "trusted_base": STD_TRUST + [
        "usize is 64 bits on the build host (Model/Width.lean usizeBits); `as` between unsigned integers is truncation (Rust reference)",
        "the harness's grammar families create no unreachable LR states, so the model is given pre-GC = post-GC state count (a disagreement would show up as a broken tie, not as a violation)",
    ],
    "assumptions": [
        "a refusal is any panic during construction; its message kind (documented 'not big enough' text, plain assert!, try_from) is recorded in coverage.input_distribution refusal.* and in the case description, not judged",
        "state numbers are never compared across widths (item-set hashing depends on the width): tables are compared after breadth-first renumbering; a table difference that also occurs between two builds at the same width is counted as table_order_dependent, not as a violation",
        "random grammars with cyclic derivations or hidden left recursion are not parsed (the LR driver need not terminate on them at any width: C07/C17); their grammar objects and tables are still compared",
    ],
}

MANIFEST = {
    "category": "proof",
    "design_ref": "DESIGN.md §5 C20",
    "technique": "Lean 4 theorems over a faithful model of the width guards and as_() conversions + equality correspondence with the Rust code on boundary-count grammars x {u8,u16,u32}",
    "text": "Theorems (Props/C20.lean), for every width w and all counts: guards_prevent_wrap (construction succeeds => every reported size is the true size, every size < 2^w, every rule/token/production/symbol index converts to StorageT unchanged); refused_iff_too_small (the repaired guards refuse exactly the grammars with a size that does not fit); widths_agree and wider_accepts (accepting widths report identical sizes and numbering; a wider type accepts whatever a narrower one does); state_guards_sound, state_widths_agree (pager/StateGraph guards => all_states_len is the true count, < 2^w - 1, every StIdx unchanged); goto_plus_one_fits (StateTable::new's assertion => every goto cell st+1 is non-zero, fits, and decodes to st); action_roundtrip (decode(encode a) = a for indices that fit); lexer_ids_fit (a lexer with n rules is accepted iff n <= 2^w and rule k gets id k). The model is a transcription of the guard/arithmetic lines of grammar.rs, pager.rs, stategraph.rs, statetable.rs and lrlex/parser.rs and is compared with the real code on every generated grammar on each run; cross-width equality of names, productions, tables, parses and lexing is checked by the harness on the real code.",
    "note": "Trusted: Lean kernel (+propext/Classical.choice/Quot.sound), the transcription (checked differentially at all u8 boundaries for every dimension, at the u16 boundaries for the grammar object in the quick tier and for tables/65k states in the thorough tier), the harness and orchestrator. The theorems are about sizes and index conversion; that equal numbering yields equal table contents and parse results is observed per generated grammar (cross-width H check), not proved. Defect found and fixed: the size guards ignored the added start rule/EOF token/start production (and Eco's implicit rules, productions and doubled token symbols).",
}
