"""C02 — configuration of tools/check.py (CONFIG) and the MANIFEST.json entry (MANIFEST)."""
from propcfg.common import STD_TRUST

CONFIG = {
    "props_modules": ["C02"],
    "level": "proof",
    "tie": "for every grammar whose certified canonical LR(1) automaton is conflict-free: the real (Pager) construction reports no conflicts, has no more states, passes check/checkLA itself, and the real parser returns the canonical parser's tree or first-error position on every generated input",
    "rule": "grammars: classics + LR(1)-but-not-LALR(1) families (context/terminator Latin squares with 2-4 contexts, recursive variants, late-discovered merges, layered expression grammars) + random grammars without precedence; inputs: all short strings, sampled sentences, mutants (<= 12 lexemes, at most 120/400 per grammar). non-trivial = grammar decided LR(1) by the certified canonical construction; distinct = distinct request line",
    "nontrivial": lambda req, im: True,
    "trusted_base": STD_TRUST + ["the canonical construction (Model/Canon.lean) is NOT trusted: it is used only when Cert.check and Cert.checkLA accept its output"],
    "assumptions": ["grammars without precedence declarations (so 'reports no conflicts' means a table without multiple candidates)", "canonical automata above 300 states are skipped and counted"],
    "shards": {"quick": 8, "thorough": 14},
}

MANIFEST = {
    "category": "proof",
    "design_ref": "DESIGN.md §5 C02",
    "technique": "Lean canonical LR(1) construction validated by the verified certificate checkers; theorems relating any two certified automata of a grammar; per-grammar comparison of conflicts, state counts and parse results with the real (Pager) automaton",
    "text": "Theorems (Props/C02.lean) for two automata of the same grammar that both pass the validators, and EVERY input: whatever the canonical parser accepts, the minimised parser accepts with a tree of the same shape (same_tree); they accept the same inputs, exactly the sentences (same_language); neither reports an error prematurely (same_first_error_partial); if both also pass checkVP they report their error at the same lexeme (same_first_error). Per generated grammar: if the certified canonical automaton is conflict-free (the grammar is LR(1)), the real construction must report no conflicts, must not have more states, must pass the validators, and the real parser's tree / first-error position is compared with the canonical parser's on every generated input.",
    "note": "Pager's global theorem (weak compatibility never creates a conflict for an LR(1) grammar) is not re-proved: it is validated per grammar against the certified canonical construction. checkVP (the viable-prefix certificate) is demanded of both automata when every rule of the grammar is productive; for grammars with unproductive rules equality of first-error positions is only compared per input. Trusted: Lean kernel, dump through the public API, orchestrator.",
}
