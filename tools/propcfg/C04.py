"""C04 — configuration of tools/check.py (CONFIG) and the MANIFEST.json entry (MANIFEST)."""
from propcfg.common import STD_TRUST

CONFIG = {
    "props_modules": ["C04"],
    "level": "proof",
    "tie": "Cert.check/checkLA accept the dumped automaton; LR.parse reports the same error lexeme and state as the real parser with recovery off; with recovery on the real parser's first error is at that lexeme and state",
    "rule": "grammars and inputs as for C01 (classics + random grammars; all short strings, sampled sentences, mutants); every rejected input of length <= 8 is also parsed with CPCT+ recovery (parses slower than 450 ms are counted as inconclusive). non-trivial = grammar with a rejected input whose error is not at lexeme 0; distinct = distinct request line",
    "nontrivial": lambda req, im: any(" err " in l and l.split(" err ")[1].split(" ")[0] != "0" for l in im.get("I", [])),
    "trusted_base": STD_TRUST + ["the parser is driven through a lexeme-vector lexer, bypassing lrlex"],
    "assumptions": ["input token ids are real tokens of the grammar", "the 500 ms recovery budget cannot have been hit by a parse that took < 450 ms in total"],
    "shards": {"quick": 8, "thorough": 14},
}

MANIFEST = {
    "category": "proof",
    "design_ref": "DESIGN.md §5 C04",
    "technique": "Lean theorems over the LR driver model and the verified validator (certificate ⇒ the error is never premature, one error, no value) + comparison of error lexeme/state with the real parser, recovery off and on",
    "text": "Theorems (Props/C04.lean) for every certified (check + checkLA) automaton and EVERY input: a rejected input yields exactly one error whose position is a lexeme index or the end of input (one_error_no_value); if the error is at lexeme i then the lexemes up to and including i are not a prefix of any sentence (error_not_premature), and an error at end of input means the input is not a sentence (error_at_end_not_sentence). The model's error lexeme and state are compared with the real parser on every generated rejected input, and with recovery on the real parser's first error must be at the same lexeme and state.",
    "note": "Partial: the other half of the statement — everything before the error lexeme IS a prefix of a sentence (viable-prefix property, needs all rules productive) — is not yet a Lean theorem; it is implied for canonical LR(1)/Pager tables by the literature and is only observed here (model = implementation). The grammar quantifier is sampled. Trusted: Lean kernel, dump through the public API, orchestrator.",
}
