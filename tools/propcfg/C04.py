"""C04 — configuration of tools/check.py (CONFIG) and the MANIFEST.json entry (MANIFEST)."""
from propcfg.common import STD_TRUST

CONFIG = {
    "props_modules": ["C04"],
    "level": "proof",
    "tie": "Cert.check/checkLA/checkVP accept the dumped automaton (checkVP for grammars whose rules are all productive); the real parser's error position equals the position a certified canonical LR(1) parser reports (Sp: the position the property prescribes); LR.parse reports the same error lexeme and state as the real parser with recovery off; with recovery on the real parser's first error is at that lexeme and state",
    "rule": "grammars and inputs as for C01 (classics + random grammars; all short strings, sampled sentences, mutants); every rejected input of length <= 8 is also parsed with CPCT+ recovery (parses slower than 450 ms are counted as inconclusive). non-trivial = grammar with a rejected input whose error is not at lexeme 0; distinct = distinct request line",
    "nontrivial": lambda req, im: any(" err " in l and l.split(" err ")[1].split(" ")[0] != "0" for l in im.get("I", [])),
    "trusted_base": STD_TRUST + ["the parser is driven through a lexeme-vector lexer, bypassing lrlex"],
    "assumptions": ["input token ids are real tokens of the grammar", "the 500 ms recovery budget cannot have been hit by a parse that took < 450 ms in total"],
    "shards": {"quick": 8, "thorough": 14},
}

MANIFEST = {
    "category": "proof",
    "design_ref": "DESIGN.md §5 C04",
    "technique": "Lean theorems over the LR driver model and the verified validator (certificate ⇒ the error is never premature, one error, no value) + comparison of error lexeme/state with the real parser, recovery off and on",
    "text": "Theorems (Props/C04.lean) for every certified automaton and EVERY input: a rejected input yields exactly one error whose position is a lexeme index or the end of input (one_error_no_value); if the error is at lexeme i then the lexemes up to and including i are not a prefix of any sentence (error_not_premature), and an error at end of input means the input is not a sentence (error_at_end_not_sentence) [these need check + checkLA]; the lexemes before the error ARE a prefix of a sentence (error_prefix_is_viable) [needs check + checkVP: closed states hold only items of the closure of their core, every rule productive — the property's hypothesis; no lookahead condition]; hence the position is determined by the language alone and any two certified automata of a grammar report it identically (error_position_unique). All three validators run on every dumped automaton within the hypothesis (conflict-free, no precedence-resolved cell, all rules productive); the prescribed position is computed by a canonical LR(1) parser that itself passed all three validators and compared with the real parser's. The model's error lexeme and state are compared with the real parser on every generated rejected input, and with recovery on the real parser's first error must be at the same lexeme and state.",
    "note": "Both halves of the statement are theorems. The recovery-on clause (first error at the same lexeme) is compared per input, not proved (the recovering driver's first error is the plain driver's error by C07.recRun_shape only at the model level). Grammars outside the hypothesis (conflicts, precedence-resolved cells, unproductive rules) are counted in driver_counts and only compared with the model. The grammar quantifier is sampled. Trusted: Lean kernel, dump through the public API, orchestrator.",
}
