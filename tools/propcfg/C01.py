"""C01 — configuration of tools/check.py (CONFIG) and the MANIFEST.json entry (MANIFEST)."""
from propcfg.common import STD_TRUST

CONFIG = {
    "props_modules": ["C01"],
    "level": "proof",
    "tie": "Cert.check accepts the automaton+table the real code built; LR.parse (model of Parser::lr) returns the same tree / error position and state as the real parser on every generated input",
    "rule": "grammars: classics + random grammars (1-4 rules, 1-4 tokens, epsilon/recursion biases, a quarter with precedence declarations); inputs per grammar: every string up to length 2-4 (by alphabet size), sampled sentences, mutated sentences. non-trivial = grammar with at least 3 states and at least one accepted and one rejected input; distinct = distinct request line",
    "nontrivial": lambda req, im: any(" acc " in l for l in im.get("I", [])) and any(" err " in l for l in im.get("I", [])),
    "trusted_base": STD_TRUST + ["the parser is driven through a lexeme-vector lexer (public Lexer/NonStreamingLexer traits), bypassing lrlex"],
    "assumptions": ["input token ids are real tokens of the grammar (never the end-of-input id)"],
    "shards": {"quick": 4, "thorough": 12},
}

MANIFEST = {
    "category": "proof",
    "design_ref": "DESIGN.md §5 C01",
    "technique": "verified validator (Lean theorems: certificate ⇒ LR driver sound and crash-free for all inputs) run on every dumped automaton + LR driver model compared with the real parser",
    "text": "Theorems (Props/C01.lean), for every grammar/automaton pair accepted by Cert.check and EVERY input: whatever LR.parse accepts is a tree whose nodes each spell one production of their rule, rooted at the user's start rule, with the input lexemes as leaves in order (lr_sound); the driver never underflows its stack, misses a goto or mis-accepts (lr_no_crash); if the automaton also passes the lookahead half Cert.checkLA (LR(1) closure and edge lookaheads w.r.t. the verified FIRST/nullable of C17, and a table holding every candidate action) then every sentence is accepted with its own derivation tree (lr_complete) and the accepted inputs are exactly the sentences (lr_accepts_iff_sentence); if the automaton also passes the termination certificate Term.termCheck (every run of reductions under one lookahead, started from one state or from two stacked states, ends within N steps) the driver ends on every input (lr_terminates), every non-sentence is rejected with an error (lr_rejects_non_sentence) and the parser decides the language (lr_decides). Both validators are evaluated on the automaton and table the real code built for each generated grammar, so one validation settles all inputs of that grammar; LR.parse is compared with the real parser on generated inputs.",
    "note": "checkLA is demanded exactly when construction reported no conflicts and no cell was settled silently by precedence (then the parser deliberately accepts a subset: known finding). Termination is a theorem for automata that pass termCheck; the certificate is evaluated on every dumped automaton and counted (driver_counts: it has never failed on a conflict-free table; tables with precedence-resolved conflicts can fail it — see the finding under C07), it is not by itself demanded, because it quantifies over all pairs of states, also pairs that never sit on top of each other. The grammar quantifier is sampled. Trusted: Lean kernel, dump through the public StateGraph/StateTable API, orchestrator.",
}
