"""C08 — configuration of tools/check.py (CONFIG) and the MANIFEST.json entry (MANIFEST)."""
from propcfg.common import STD_TRUST

CONFIG = {
    "props_modules": ["C08"],
    "level": "proof",
    "tie": "the log of action calls (production, rule, span, arguments, in order) recorded from parse_actions equals Model/Actions.lean on the same table and input (recovery off); the specification derived from the final tree accepts the implementation's log with recovery off and on",
    "rule": "grammars: classics + epsilon-position corpus + random grammars (empty productions in first/middle/last position arise and are counted); inputs: all short strings, sampled sentences, mutants (<= 10 lexemes); lexemes have length 2 with 1-byte gaps so that zero-length spans and lexeme spans cannot be confused. non-trivial = some accepted input with at least one action call of an empty production; distinct = distinct request line",
    "nontrivial": lambda req, im: any(",,;" in l or l.endswith(",") or ",;" in l for l in im.get("I", [])),
    "trusted_base": STD_TRUST + ["the parser is driven through a lexeme-vector lexer; actions are recording closures, one per production"],
    "assumptions": ["recovering parses slower than 450 ms are not compared (time budget)"],
    "shards": {"quick": 8, "thorough": 14},
}

MANIFEST = {
    "category": "proof",
    "design_ref": "DESIGN.md §5 C08",
    "technique": "Lean model of the span stack and action calls of Parser::lr + specification derived from the final tree; equality correspondence and spec validation of the real action log",
    "text": "The model (Model/Actions.lean) transcribes the reduce/shift arms of Parser::lr with the span stack (repaired reduce_span); the specification (Model/ActionsSpec.lean) derives from the final tree the calls that must have happened: children before parents, left to right, each with its production, rule, arguments (lexeme or child value) and the span from the first to the last lexeme derived, zero-length when none. Theorems in Props/C08.lean relate the two for every input. The real parser's recorded log is compared with the model (recovery off) and validated against the specification (recovery off and on); parse parameter and parse_map tree equality are checked harness-side.",
    "note": "Recovery-on runs are validated against the specification only (the recovering driver is modelled under C05-C07). Trusted: Lean kernel, harness recording closures, orchestrator.",
}
