"""C19 — configuration of tools/check.py (CONFIG) and the MANIFEST.json entry (MANIFEST)."""
from propcfg.common import STD_TRUST

CONFIG = {
    "props_modules": ["C19"],
    "level": "proof",
    "tie": "NewlineCache queries (line number at every byte offset, line/column at every boundary, span_line_bytes on every boundary span) equal Model/Newline.lean on identical texts and chunkings",
    "rule": "texts: fixed corpus + every text over {a,\\n,\\r,e-acute} up to length 4 (quick) / 6 (thorough) with every 3-piece chunking up to length 3 + random texts over an alphabet with LF, CR and 2/3/4-byte characters with random chunkings; per text every byte offset, boundary and boundary span is queried. non-trivial = contains a newline or a multi-byte character; distinct = distinct request line",
    "nontrivial": lambda req, im: any(t in req[0].split(" ")[3:] for t in ("10", "233", "10084", "128512")),
    "trusted_base": STD_TRUST + ["slice::binary_search modelled by its documented Ok/Err contract on strictly increasing slices"],
    "assumptions": ["`src` passed to byte_to_line_num_and_col_num is the text that was fed (documented precondition)"],
}

MANIFEST = {
    "category": "proof",
    "design_ref": "DESIGN.md §5 C19",
    "technique": "Lean 4 theorems over a faithful model of NewlineCache + equality correspondence with the Rust code",
    "text": "Theorems (Props/C19.lean): feeding in any chunks = feeding the whole text; line number = 1 + newlines before the offset for every offset; line/column formula for every character boundary with CR LF counted once; span_line_bytes never panics and returns exactly [start of the line containing span.start, end of the line containing offset span.end] for every start <= end. Proved for all texts by induction, no size bound. The model is a line-by-line transcription of newlinecache.rs and is compared with the real code on every query of every generated text on each run.",
    "note": "Trusted: Lean kernel (+propext/Classical.choice/Quot.sound), the transcription (checked differentially, incl. all texts over a 4-letter alphabet up to length 4/6 and every chunking of the short ones), binary_search modelled by its contract, harness and orchestrator. The LRNonStreamingLexer glue (line_col, span_lines_str) is checked against the cache on the same cases, not modelled.",
}
