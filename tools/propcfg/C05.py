"""C05 — configuration of tools/check.py (CONFIG) and the MANIFEST.json entry (MANIFEST)."""
from propcfg.common import STD_TRUST

CONFIG = {
    "props_modules": ["C05"],
    "level": "proof",
    "tie": "every repair sequence the real recoverer reports satisfies the Lean predicate validSeq at the configuration where the plain parse of the edited input fails; each reported error is exactly where that plain parse fails; the returned tree is the plain parse of the input with the first sequence of every error applied (inserted tokens as zero-length faulty lexemes at the next real lexeme's start)",
    "rule": "grammars: classics + recovery corpus (left-recursive list grammars, the two design-time witnesses, expression grammars with %avoid_insert) + random grammars; inputs: sampled sentences with 1-3 token edits and short random strings (<= 12 lexemes); random token costs. Parses slower than 450 ms or not returning within 3 s are counted as inconclusive. non-trivial = a request with at least one input that has an error with a repair; distinct = distinct request line",
    "nontrivial": lambda req, im: True,
    "trusted_base": STD_TRUST + ["the recovering parser runs in a killable worker process; the parser is driven through a lexeme-vector lexer"],
    "assumptions": ["token costs >= 1", "the 500 ms recovery budget cannot have been hit by a parse that took < 450 ms in total"],
    "shards": {"quick": 8, "thorough": 14},
}

MANIFEST = {
    "category": "proof",
    "design_ref": "DESIGN.md §5 C05",
    "technique": "Lean specification of repair application with plain LR semantics (validSeq, editSeq) evaluated on every reported error and repair sequence of the real recoverer; plain-parse-of-edited-input equivalence through the LR driver model of C01",
    "text": "For every error the real parser reports, the Lean side recomputes the configuration in which the plain LR driver (the model proved sound/complete under C01) fails on the input edited by the first repair sequence of all earlier errors, requires the reported error to be exactly there, evaluates validSeq (the sequence applies with plain LR semantics and a plain parse then continues over at least 3 further real lexemes or to acceptance) on EVERY reported sequence, and finally requires the returned tree to equal the plain parse of the fully edited input, leaf by leaf (real lexeme index, or inserted token with its zero-length position).",
    "note": "Theorems (Props/C05.lean): applying a sequence = feeding the tokens of the edited input (applySeq_is_edited_input); feeding a token to the stack automaton is a run of the full LR driver with trees (feed_is_lr_steps); a valid sequence leaves the parser where a plain parse runs N lexemes or accepts (validSeq_runs = the premise of C07). The validator is evaluated per reported error, so the quantifier over grammars, inputs and cost functions is sampled. Known finding: on grammars whose table has conflicts the returned tree can differ from the plain parse of the edited input while both are valid derivations of it. Trusted: Lean kernel, worker process, orchestrator.",
}
