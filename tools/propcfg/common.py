"""Shared text for the per-property configuration files."""
STD_TRUST = [
    "Lean 4.33.0 kernel; axioms audited per theorem by `#print axioms` (allowed: propext, Classical.choice, Quot.sound)",
    "hand-written Lean model of the anchored Rust code, tied to /repo by the correspondence run of this check (differential: reach bounded by the generators, distribution in coverage.input_distribution)",
    "tools/check.py, tools/extract.py, harness/ (generation, dumping, canonicalisation, SplitMix64), the compiled gvdriver (Lean compiler + C toolchain)",
]
