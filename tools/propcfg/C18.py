"""C18 — configuration of tools/check.py (CONFIG) and the MANIFEST.json entry (MANIFEST)."""
from propcfg.common import STD_TRUST

# Audited by hand (tools/extract.py fails — broken tie — when a builder field is in neither list).
# CTParserBuilder fields that `rebuild_cache` deliberately ignores, with the reason each is harmless:
PARSER_FIELDS_NOT_IN_CACHE = {
    "grammar_src": "unstable API (with_grammar_src): source text handed over in memory; no file, no mtime — outside the property's operations",
    "from_ast": "unstable API (grammar_ast): same",
    "output_path": "where the text is written, not what is written; the harness builds clean copies into another directory and compares texts",
    "inspect_rt": "callback (used by CTLexerBuilder::lrpar_config for `test_files`); does not influence the generated text; see assumptions",
    "inspect_callback": "cfg(test) only",
    "phantom": "PhantomData",
}
# CTLexerBuilder has no cache string: the text is generated on every build and compared with the file, so
# every field is covered by the text comparison. The list exists so that a new field forces a re-audit
# (e.g. a field that makes `build` skip generation).
LEXER_FIELDS_AUDITED = [
    "lrpar_config", "lexer_path", "output_path", "lexerkind", "mod_name", "visibility", "rust_edition",
    "rule_ids_map", "allow_missing_terms_in_lexer", "allow_missing_tokens_in_parser", "warnings_are_errors",
    "show_warnings", "header", "inspect_lexerkind_cb",
]

def _nontrivial(im):
    """a history with at least one failing build step and one step that skips regeneration"""
    steps = [t.split(":")[1].split(",") for t in " ".join(im.get("I", [])).split(" ") if ":" in t]
    failing = any(f[0] == "1" or f[5] in ("1", "2") for f in steps)
    skipping = any(f[0] == "0" and f[1] == "0" for f in steps)
    return failing and skipping


CONFIG = {
    "props_modules": ["C18"],
    "level": "proof",
    "tie": "per build step of every generated history: status of CTParserBuilder/CTLexerBuilder, regenerated(), existence, text and (explicitly set) mtime of both generated files equal Model/Build.lean run on the same history with the generators' results measured by clean builds",
    "rule": "histories: 8 hand-written witness histories + random histories over {edit grammar (5 valid texts), make grammar invalid (unparsable, conflicting, %expect mismatch, warnings, bad %grmtools section, unknown rule, file deleted), edit lexer (4 valid texts), make lexer invalid (bad regex, bad rule, bad header, file deleted), set one of 30 builder options (parser: yacckind, recoverer, error_on_conflicts, warnings_are_errors, show_warnings, visibility, rust_edition, mod_name, serialisation_format; pipeline: two builders with/without rule_ids_map, lrpar_config; lexer: lexerkind, mod_name, visibility, rust_edition, allow_missing_*, warnings_are_errors, show_warnings, 9 regex flags, 3 regex limits), build}; time steps 0/1/2 s, mtimes set explicitly; each history forces three options to be toggled between two builds, so every option is toggled between builds at least once per run (coverage.input_distribution toggled_between_builds_*). One subprocess per build step and per clean build. non-trivial = history with at least one failing and one skipping build step; distinct = distinct request line",
    "nontrivial": lambda req, im: _nontrivial(im),
    "shards": {"quick": 4, "thorough": 8},
    "trusted_base": STD_TRUST + [
        "the generators (what text CTParserBuilder/CTLexerBuilder produce from sources and settings) are abstract in the theorems; in the correspondence run they are instantiated by the results of builds into an empty directory",
        "file system and mtime behaviour are modelled (files = optional (text, mtime), edits stamp the current time, the clock never runs backwards); rustc/cargo are not involved — only the generated .rs texts are compared",
        "KeyCovers (cache string injective on what the parser generator depends on besides the grammar text): discharged syntactically by tools/extract.py (field list of rebuild_cache vs audited exclusion list) and behaviourally by the correspondence run",
    ],
    "assumptions": [
        "an edit of a source file sets its mtime to the current time and time does not run backwards (an edit that keeps an older mtime is not detected by the parser builder: the cache string does not contain the grammar text)",
        "`unchanged ⇒ not regenerated` needs mtime(out) > mtime(grammar) strictly: a build in the same clock tick as the last grammar edit is (harmlessly) repeated next time",
        "grammars do not use the `test_files` header key: under lrpar_config those files are only re-checked when the parser is regenerated (see report)",
        "YaccKind::Eco is not offered as an option value: CTParserBuilder::build rejects it with a panic before it looks at any file",
        "a builder that the failing build never invoked cannot remove its output (known finding C18-uninvoked-builder)",
    ],
}

MANIFEST = {
    "category": "proof",
    "design_ref": "DESIGN.md §5 C18",
    "technique": "Lean 4 refinement proof over a state-machine model of CTParserBuilder::build / CTLexerBuilder::build (abstract generators) + replay of generated edit/option/build histories on the real builders, one subprocess per build step",
    "text": "Theorems (Props/C18.lean), for every generator, every initial configuration and every sequence of {edit grammar, edit lexer, change option, make invalid, restore, build} with arbitrary time steps: build_state_equals_clean_invoked / build_equals_clean (if the cache string covers what the parser generator depends on — hypothesis KeyCovers, stated explicitly — every build, successful or not, leaves for each invoked builder exactly what a build into an empty directory leaves; a successful build leaves exactly the clean build's two texts); unchanged_not_regenerated (same generator result, no grammar edit, output strictly newer than the grammar ⇒ regenerated() = false and both files untouched); changed_regenerated (+ _settings, _lexer: after a grammar edit, or when the embedded cache string differs, the parser builder never answers 'not regenerated'; the lexer text is always regenerated and rewritten iff different); failed_build_leaves_no_stale_file_partial (a builder that reports an error or panics has removed its own output; full_statement_refuted shows why the unrestricted statement is false: a builder the failing build script never invoked keeps its file). The model transcribes the repaired builders (output guard). Tie: see CONFIG.tie; harness-side specification checks compare every step with a clean build and flag stale files.",
    "note": "Level proof with abstract `gen`: what the builders generate is a parameter; file system and mtimes are modelled; rustc is not involved, only the generated .rs text is compared (timestamp comment stripped). Trusted: Lean kernel (+propext/Classical.choice/Quot.sound), the transcription (checked differentially per build step), the classification of clean-build failures into early/late by error message, tools/extract.py's field audit, harness and orchestrator. Genuine defect found and fixed: failed builds left the previous build's generated file in place (lrpar 5975b05, lrlex f7385ce in the scratch worktree). Known finding: outputs of builders the failing build never invoked.",
}
