"""C06 — configuration of tools/check.py (CONFIG) and the MANIFEST.json entry (MANIFEST)."""
from propcfg.common import STD_TRUST

CONFIG = {
    "props_modules": ["C06"],
    "level": "proof",
    "tie": "for every reported error whose repair cost is within the cap, the set of repair sequences the real recoverer reports equals Rec.refRepairs (minimum cost, furthest parse, trailing shifts stripped, deduplicated) computed from the configuration where the plain parse of the edited input fails; the order satisfies the documented ranking",
    "rule": "grammars: classics + recovery corpus (left-recursive list grammars, the two design-time witnesses, expression grammars with %avoid_insert) + random grammars; inputs: sampled sentences with 1-3 token edits and short random strings (<= 12 lexemes); random token costs. Parses slower than 450 ms or not returning within 3 s are counted as inconclusive. non-trivial = a request with at least one input that has an error with a repair; distinct = distinct request line",
    "nontrivial": lambda req, im: True,
    "trusted_base": STD_TRUST + ["the recovering parser runs in a killable worker process; the parser is driven through a lexeme-vector lexer"],
    "assumptions": ["token costs >= 1", "the 500 ms recovery budget cannot have been hit by a parse that took < 450 ms in total"],
    "shards": {"quick": 8, "thorough": 14},
}

MANIFEST = {
    "category": "proof",
    "design_ref": "DESIGN.md §5 C06",
    "technique": "Lean reference enumeration of repairs proved equal to a declarative search relation, minimal and complete at its cost; set equality with the real recoverer's output per error; order check",
    "text": "Theorems (Props/C06.lean): the reference enumeration is exactly the declarative relation Search (enumerate_iff_search); when it answers cost c with set rs, rs is non-empty, is exactly the set of complete repair sequences of cost c, and no sequence of lower cost exists (min_cost_complete); every such sequence applies with plain LR semantics, costs c, never inserts end-of-input and ends in a success configuration (search_sequence_valid); the final answer has no duplicates, no trailing shifts, and only sequences that let parsing continue as far as the best (refRepairs_spec). For every error the real recoverer reports (cost within the cap) the reported set must equal the reference set; same cost, no trailing shift, no duplicate, no end-of-input insert and the %avoid_insert/length ranking are checked on every error.",
    "note": "The reference mirrors the intended semantics of CPCT+ (one lexeme per forward move, no insert directly after a delete, success = 3 trailing shifts or acceptance); the real search (Dijkstra buckets with node merging) is not modelled, it is compared per error. Errors whose minimum cost exceeds the cap (3 quick / 4 thorough) or whose parse took >= 450 ms are inconclusive and counted. Trusted: Lean kernel, worker process, orchestrator.",
}
