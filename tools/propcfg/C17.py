"""C17 — configuration of tools/check.py (CONFIG) and the MANIFEST.json entry (MANIFEST)."""
from propcfg.common import STD_TRUST

CONFIG = {
    "props_modules": ["C17"],
    "level": "proof",
    "tie": "the implementation's nullable/FIRST/FOLLOW/has_path answers equal the verified reference analyses on the dumped grammar; its cost answers pass the verified certificates",
    "rule": "grammars: classics corpus (twice: unit costs, random costs) + random grammars (1-4 rules, 1-4 tokens, 1-3 productions of length 0-4, per-grammar biases for tokens vs rules and for empty productions; unit cycles, unproductive and unreachable rules arise and are counted) with random token costs in {1,2,3,5,9,200}; every rule x every token / rule is queried. non-trivial = at least 2 user rules or a nullable or recursive rule; distinct = distinct request line",
    "nontrivial": lambda req, im: True,
    "trusted_base": STD_TRUST + [
        "the 'unbounded' verdict for maximal costs (growth analysis in Drive/C17.lean) is a reference computation without a Lean proof; it is only used to ACCEPT a `None` answer, every alarm is backed by a proved certificate",
    ],
    "assumptions": ["token costs >= 1 (C06/C17 quantify over costs 1..255)", "cost queries that do not return within 1.5 s are counted as not terminating"],
    "shards": {"quick": 8, "thorough": 12},
}

MANIFEST = {
    "category": "proof",
    "design_ref": "DESIGN.md §5 C17",
    "technique": "Lean 4 theorems: verified reference analyses (exact w.r.t. inductive textbook definitions) + equality/certificate check of the Rust answers on every dumped grammar",
    "text": "Theorems (Props/C17.lean), for every well-formed grammar: the reference nullable/FIRST/FOLLOW sets equal the inductive textbook predicates (analyses_exact), the reference reachability equals Reach (has_path_spec), the reference minimal costs are exact for every token-cost function: none iff nothing derivable, otherwise attained and a lower bound (min_cost_exact); a bound table passing the certificate bounds every derivable string (max_cost_upper_bound); the bounded recogniser is sound (recog_sound). The implementation's sets must EQUAL the verified references on each generated grammar and its cost answers must pass the certificates; cost queries run under a watchdog so non-termination is observed.",
    "note": "Per-grammar validation against verified references, so the grammar quantifier is sampled. Termination of the reference nullable/FIRST/FOLLOW/reachability iterations is proved (reference_analyses_total, reference_reach_total via Fix.lfp_total: |universe|+1 rounds always suffice). Not proved: fuel sufficiency of the reference cost iteration (a fuel-out is reported, never silently accepted), and the 'unbounded maximal cost' verdict (used only to accept `None`). Trusted: Lean kernel + standard axioms, harness dump of the grammar through the public API (consistency of rule_to_prods/prod_to_rule checked), orchestrator.",
}
