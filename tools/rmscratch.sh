#!/bin/sh
N="$1"
rm -rf "/tmp/w$N"
git -C /repo worktree remove --force "/tmp/r$N" 2>/dev/null || true
rm -rf "/tmp/r$N"
git -C /repo worktree prune
