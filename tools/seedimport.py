#!/usr/bin/env python3
"""tools/seedimport.py Cnn SRC_DIR OFFSET — copy a later round's patchK.diff/demoK.md (K = 1, 2, …) from
SRC_DIR into seeded/Cnn/ as patch(K+OFFSET).diff / demo(K+OFFSET).md, plus small supporting files
under seeded/Cnn/round<OFFSET>/."""
import os, re, shutil, sys
pid, src, off = sys.argv[1], sys.argv[2], int(sys.argv[3])
d = f'/verif/seeded/{pid}'
os.makedirs(d, exist_ok=True)
extra = f'{d}/round{off}'
for f in sorted(os.listdir(src)):
    p = os.path.join(src, f)
    m = re.fullmatch(r'(patch|demo)(\d+)\.(diff|md)', f)
    if m:
        shutil.copy(p, f'{d}/{m.group(1)}{int(m.group(2)) + off}.{m.group(3)}')
        print('imported', f, '->', f'{m.group(1)}{int(m.group(2)) + off}.{m.group(3)}')
    elif os.path.isfile(p) and os.path.getsize(p) < 200_000 and not f.endswith('.log') and not f.startswith('test'):
        os.makedirs(extra, exist_ok=True)
        shutil.copy(p, os.path.join(extra, f))
