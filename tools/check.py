#!/usr/bin/env python3
"""Orchestrator of one property check:  tools/check.py Cnn [--tier quick|thorough] [--replay FILE]

Pipeline (cwd = /verif):
  1. tools/extract.py           regenerate lean/GrmVerif/Extracted.lean from /repo
  2. lake build                 re-check the property's theorems, build the native driver; audit axioms
  3. cargo build                harness against /repo's working tree (path dependencies)
                                (CONFIG `hooks: True`: with RUSTFLAGS=--cfg grmtools_verif into harness/target/hook,
                                so that /repo's verification hooks are compiled in for that property only;
                                CONFIG `plain_release: True`: cfgrammar without debug assertions, as a shipped
                                build has it, into harness/target/plain)
  4. vharness Cnn               run the real code on corpus + generated cases -> cases.txt, impl.txt
  5. gvdriver < cases.txt       model answers (M), spec answers (S), validator verdicts (V)
  6. compare, classify, match known findings, write evidence/Cnn.json, exit code

Line tags.  impl.txt:  `<id> I <payload>` implementation's answer; `<id> H ok|fail <why>` harness-side
verdict on the real code; `<id> D <text>` description.  driver: `<id> M <payload>` faithful model;
`<id> S <payload>` specification; `<id> V ok|fail <why>` verified validator on the implementation's
output carried in the request.
  I != S, V fail, H fail  -> the implementation violates the property on that input  (VIOLATION + replay)
  I != M only             -> the tie model<->code is broken; no failing input      (no-failing-input-found)
"""
import json, os, re, subprocess, sys, time, shutil, hashlib

VERIF = os.path.dirname(os.path.dirname(os.path.abspath(__file__)))
LEAN = os.path.join(VERIF, "lean")
HARNESS = os.path.join(VERIF, "harness")
ALLOWED_AXIOMS = {"propext", "Classical.choice", "Quot.sound"}
BANNED = re.compile(r"\b(sorry|admit|native_decide|bv_decide|implemented_by|unsafe)\b|^axiom\s|maxHeartbeats\s+0", re.M)

def repo_path():
    """the grmtools tree the harness is built against: the path dependency of harness/Cargo.toml"""
    m = re.search(r'cfgrammar\s*=\s*\{\s*path\s*=\s*"([^"]+)/cfgrammar"', open(os.path.join(HARNESS, "Cargo.toml")).read())
    return m.group(1) if m else "/repo"


REPO = repo_path()
sys.path.insert(0, os.path.join(VERIF, "tools"))
from props import PROPS  # noqa: E402


def sh(cmd, cwd=None, env=None, timeout=None, stdin=None, stdout=None):
    e = dict(os.environ)
    e["CARGO_NET_OFFLINE"] = "true"
    if env:
        e.update(env)
    return subprocess.run(cmd, cwd=cwd, env=e, timeout=timeout, stdin=stdin,
                          stdout=stdout if stdout else subprocess.PIPE, stderr=subprocess.STDOUT, text=True)


def strip_comments(src):
    src = re.sub(r"/-.*?-/", "", src, flags=re.S)
    return re.sub(r"--.*", "", src)


def lean_build(prop, cfg, log):
    """returns (ok, theorems, axioms_by_theorem, problems)"""
    problems = []
    targets = [f"GrmVerif.Props.{m}" for m in cfg["props_modules"]] + ["gvdriver"]
    r = sh(["lake", "build"] + targets, cwd=LEAN, timeout=3000)
    log.write(r.stdout)
    if r.returncode != 0:
        errs = [l for l in r.stdout.splitlines() if l.startswith("error")]
        problems.append("lake build failed: " + "; ".join(errs[:5]))
        return False, [], {}, problems
    # banned constructs anywhere in the Lean sources this property depends on
    for root, _, files in os.walk(LEAN):
        if ".lake" in root:
            continue
        for f in files:
            if f.endswith(".lean"):
                src = strip_comments(open(os.path.join(root, f)).read())
                m = BANNED.search(src)
                if m:
                    problems.append(f"banned construct {m.group(0)!r} in {os.path.join(root, f)}")
    # axiom audit of every theorem in the property files
    theorems = []
    for m in cfg["props_modules"]:
        src = strip_comments(open(os.path.join(LEAN, "GrmVerif", "Props", m + ".lean")).read())
        ns = re.search(r"^namespace\s+(\S+)", src, re.M)
        ns = ns.group(1) if ns else ""
        for t in re.findall(r"^theorem\s+([A-Za-z0-9_'.]+)", src, re.M):
            theorems.append((m, f"{ns}.{t}" if ns else t))
    wd = os.path.join(VERIF, "work", prop)
    os.makedirs(wd, exist_ok=True)
    audit = os.path.join(wd, "Audit.lean")
    with open(audit, "w") as f:
        for m in cfg["props_modules"]:
            f.write(f"import GrmVerif.Props.{m}\n")
        for _, t in theorems:
            f.write(f"#print axioms {t}\n")
    r = sh(["lake", "env", "lean", audit], cwd=LEAN, timeout=1200)
    log.write(r.stdout)
    axioms = {}
    for mm in re.finditer(r"^'(.+)' (depends on axioms: \[([^\]]*)\]|does not depend on any axioms)", r.stdout, re.M):
        axioms[mm.group(1)] = [a.strip() for a in (mm.group(3) or "").replace("\n", " ").split(",") if a.strip()]
    if r.returncode != 0:
        problems.append("axiom audit failed to run: " + r.stdout[:300])
    for _, t in theorems:
        if t not in axioms:
            problems.append(f"no axiom report for {t}")
        else:
            bad = set(axioms[t]) - ALLOWED_AXIOMS
            if bad:
                problems.append(f"{t} depends on non-standard axioms {sorted(bad)}")
    if not theorems:
        problems.append("no theorems found in property modules")
    return not problems, theorems, axioms, problems


def harness_build(log, cfg):
    shutil.copyfile(os.path.join(REPO, "Cargo.lock"), os.path.join(HARNESS, "Cargo.lock"))
    env = {}
    if cfg.get("hooks"):
        # the hooks of /repo (guard `grmtools_verif`) are compiled in; own target directory, so that the
        # builds of the properties that do not use a hook are not invalidated
        env["RUSTFLAGS"] = "--cfg grmtools_verif"
        env["CARGO_TARGET_DIR"] = os.path.join(HARNESS, "target", "hook")
    cmd = ["cargo", "build", "--release", "--offline"]
    if cfg.get("plain_release"):
        # the harness normally builds cfgrammar with its debug assertions on (they are code under test for C17);
        # a property about what a shipped build does (C20: guards must not live in `debug_assert!`s) is built
        # as users build: plain release, in its own target directory
        cmd += ["--config", "profile.release.package.cfgrammar.debug-assertions=false"]
        env["CARGO_TARGET_DIR"] = os.path.join(HARNESS, "target", "plain")
    r = sh(cmd, cwd=HARNESS, env=env, timeout=3000)
    log.write(r.stdout)
    return r.returncode == 0, r.stdout


def load_known():
    p = os.path.join(VERIF, "known_findings.json")
    if not os.path.exists(p):
        return []
    return json.load(open(p)).get("findings", [])


def main():
    t0 = time.time()
    args = sys.argv[1:]
    prop = args[0]
    tier = os.environ.get("VERIF_TIER", "quick")
    replay = None
    i = 1
    while i < len(args):
        if args[i] == "--tier":
            tier = args[i + 1]; i += 2
        elif args[i] == "--replay":
            replay = os.path.abspath(args[i + 1]); i += 2
        else:
            i += 1
    if tier not in ("quick", "thorough"):
        tier = "quick"
    try:
        seed = int(os.environ.get("VERIF_SEED", "1"))
    except ValueError:
        seed = 1
    cfg = PROPS[prop]
    if replay and os.path.exists(replay):
        keep = os.path.join(VERIF, "work", f"{prop}-replay-input.txt")
        os.makedirs(os.path.dirname(keep), exist_ok=True)
        shutil.copyfile(replay, keep)
        replay = keep
    wd = os.path.join(VERIF, "work", prop)
    shutil.rmtree(wd, ignore_errors=True)
    for f in os.listdir(os.path.join(VERIF, "replays")) if os.path.isdir(os.path.join(VERIF, "replays")) else []:
        if f.startswith(prop + "-") and not replay:
            os.remove(os.path.join(VERIF, "replays", f))
    os.makedirs(wd, exist_ok=True)
    os.makedirs(os.path.join(VERIF, "evidence"), exist_ok=True)
    os.makedirs(os.path.join(VERIF, "replays"), exist_ok=True)
    log = open(os.path.join(wd, "log.txt"), "w")
    violations = []      # (kind, signature, replay_path, no_failing_input)
    notes = []

    # 1. extraction (constants the models are parametric in / re-checked against)
    r = sh([sys.executable, os.path.join(VERIF, "tools", "extract.py"), prop], cwd=VERIF)
    log.write(r.stdout)
    extract_ok = r.returncode == 0
    if not extract_ok:
        notes.append("extract.py failed: " + r.stdout.strip()[-400:])

    # 2. theorems
    lean_ok, theorems, axioms, lproblems = lean_build(prop, cfg, log)
    # 3. harness
    hb_ok, hb_out = harness_build(log, cfg)
    if not hb_ok:
        print(hb_out[-3000:])
        print(f"harness does not build against /repo: the tie for {prop} cannot be evaluated")
    # 4./5. run
    counters = {"cases": 0, "impl_violates_spec": 0, "model_disagrees_impl": 0, "harness_fail": 0,
                "validator_fail": 0, "known": 0}
    stats = {"stats": {}, "samples": []}
    tie_broken = []
    if hb_ok and os.path.exists(os.path.join(LEAN, ".lake/build/bin/gvdriver")):
        run_cases(prop, cfg, tier, seed, replay, wd, log, counters, violations, tie_broken, stats)
    elif hb_ok:
        notes.append("driver not built")
    # known findings
    known = load_known()
    unlisted = []
    printed_known = set()

    def match_known(v):
        for k in known:
            if k.get("status") == "finding" and k.get("property") == prop and re.search(k["match"], v[1], re.S):
                return k
        return None

    for v in violations:
        hit = match_known(v)
        if hit:
            counters["known"] += 1
            if hit["id"] not in printed_known:
                printed_known.add(hit["id"])
                print(f"KNOWN-FINDING: property={prop} {hit['what']}")
        else:
            unlisted.append(v)
    # a broken proof obligation / tie is a violation by itself: when no (unlisted) failing input was
    # found it is reported as such, naming the theorem or correspondence that no longer checks
    if not lean_ok or not extract_ok or not hb_ok:
        why = "; ".join(lproblems + notes + ([] if hb_ok else ["harness build failed"]))
        if not [v for v in unlisted if not v[3]]:
            rp = os.path.join(VERIF, "replays", f"{prop}-obligation.txt")
            with open(rp, "w") as f:
                f.write(f"property {prop}: proof obligation / tie no longer checks\n{why}\n")
                f.write("theorems: " + ", ".join(t for _, t in theorems) + "\n")
            unlisted.append(("obligation", "obligation " + why, rp, True))
    if tie_broken and not [v for v in unlisted if not v[3]]:
        rp = os.path.join(VERIF, "replays", f"{prop}-tie.txt")
        with open(rp, "w") as f:
            f.write(f"property {prop}: correspondence model<->implementation broken on {len(tie_broken)} case(s); "
                    f"no explored case violates the specification oracle beyond the known findings\n")
            f.write(f"correspondence: {cfg.get('tie', 'model = implementation on identical inputs')}\n")
            for t in tie_broken[:5]:
                f.write(t + "\n")
        unlisted.append(("tie", "tie-broken " + tie_broken[0][:200], rp, True))

    wall = time.time() - t0
    nthm = len(theorems)
    discharged = sum(1 for _, t in theorems if t in axioms and not (set(axioms[t]) - ALLOWED_AXIOMS)) if lean_ok else 0
    ev = {
        "property_id": prop, "tier": tier, "seed": seed, "level": cfg["level"],
        "coverage": {
            "obligations": max(nthm, 1), "discharged": discharged,
            "checker_cmd": "cd lean && lake build " + " ".join(f"GrmVerif.Props.{m}" for m in cfg["props_modules"]) + " && lake env lean ../work/%s/Audit.lean  (#print axioms of every theorem)" % prop,
            "trusted_base": cfg["trusted_base"],
            "theorems": [{"name": t, "axioms": axioms.get(t)} for _, t in theorems],
            "evaluations": counters["cases"],
            "distinct_nontrivial": stats.get("distinct_nontrivial", 0),
            "rule": cfg["rule"],
            "samples": stats.get("samples", [])[:8] or ["(no cases run)"],
            "input_distribution": stats.get("stats", {}),
            "driver_counts": counters.get("driver", {}),
            "impl_violates_spec": counters["impl_violates_spec"] + counters["harness_fail"] + counters["validator_fail"],
            "model_disagrees_impl": counters["model_disagrees_impl"],
            "known_findings_matched": counters["known"],
            "lean_problems": lproblems, "notes": notes,
        },
        "assumptions": cfg["assumptions"],
        "wall_s": round(wall, 2),
        "violations": len(unlisted),
    }
    if cfg["level"] == "translation_validation":
        ev["coverage"]["programs"] = max(stats.get("stats", {}).get("programs", 0), 0)
        ev["coverage"]["disagreements_checked"] = counters["cases"]
    with open(os.path.join(VERIF, "evidence", f"{prop}.json"), "w") as f:
        json.dump(ev, f, indent=1, ensure_ascii=False)
    log.close()
    print(f"{prop} [{tier}] theorems={discharged}/{nthm} cases={counters['cases']} "
          f"impl_violates_spec={ev['coverage']['impl_violates_spec']} model_disagrees_impl={counters['model_disagrees_impl']} "
          f"known={counters['known']} wall={wall:.1f}s")
    seen = set()
    for v in unlisted:
        if v[2] in seen:
            continue
        seen.add(v[2])
        rel = os.path.relpath(v[2], VERIF)
        print(f"VIOLATION property={prop} replay={rel}" + (" no-failing-input-found" if v[3] else ""))
        if len(seen) >= 10:
            break
    sys.exit(1 if unlisted else 0)


def run_cases(prop, cfg, tier, seed, replay, wd, log, counters, violations, tie_broken, stats):
    hbin = os.path.join(HARNESS, "target/hook/release/vharness" if cfg.get("hooks") else "target/plain/release/vharness" if cfg.get("plain_release") else "target/release/vharness")
    dbin = os.path.join(LEAN, ".lake/build/bin/gvdriver")
    shards = cfg.get("shards", {}).get(tier, 1) if not replay else 1
    procs = []
    for s in range(shards):
        sd = os.path.join(wd, f"s{s}")
        os.makedirs(sd, exist_ok=True)
        cmd = [hbin, prop, "--seed", str(seed), "--tier", tier, "--out", sd, "--shard", str(s), "--shards", str(shards)]
        if replay:
            cmd += ["--replay", replay]
        e = dict(os.environ)
        procs.append((sd, subprocess.Popen(cmd, cwd=VERIF, stdout=subprocess.PIPE, stderr=subprocess.STDOUT, text=True, env=e)))
    tmo = cfg.get("timeout", {}).get(tier, 3000)
    merged = {}
    samples = []
    distinct = set()
    for sd, p in procs:
        try:
            o, _ = p.communicate(timeout=tmo)
        except subprocess.TimeoutExpired:
            p.kill(); o = "timeout"
        log.write(o or "")
        if p.returncode != 0:
            rp = os.path.join(VERIF, "replays", f"{prop}-harness-crash.txt")
            with open(rp, "w") as f:
                f.write(f"harness process for {prop} died (rc={p.returncode}): an uncaught abort/hang in the code under test\n{(o or '')[-2000:]}\n")
                lastcase = ""
                try:
                    lastcase = open(os.path.join(sd, "current_case.txt")).read()
                except OSError:
                    pass
                f.write(lastcase)
            violations.append(("harness-crash", f"harness-crash rc={p.returncode} {(o or '')[-300:]}", rp, False))
            continue
        cases = os.path.join(sd, "cases.txt")
        with open(cases) as fin, open(os.path.join(sd, "model.txt"), "w") as fout:
            r = subprocess.run([dbin], stdin=fin, stdout=fout, stderr=subprocess.PIPE, text=True)
        if r.returncode != 0:
            rp = os.path.join(VERIF, "replays", f"{prop}-driver-crash.txt")
            open(rp, "w").write("gvdriver failed: " + r.stderr[-2000:])
            violations.append(("driver-crash", "driver-crash", rp, True))
            continue
        compare(prop, cfg, sd, counters, violations, tie_broken, distinct)
        try:
            st = json.load(open(os.path.join(sd, "stats.json")))
            for k, v in st["stats"].items():
                merged[k] = merged.get(k, 0) + v
            samples += st["samples"]
        except (OSError, ValueError):
            pass
    stats["stats"] = merged
    stats["samples"] = samples
    stats["distinct_nontrivial"] = len(distinct)


def compare(prop, cfg, sd, counters, violations, tie_broken, distinct):
    reqs = {}
    for line in open(os.path.join(sd, "cases.txt")):
        parts = line.rstrip("\n").split(" ", 2)
        if len(parts) >= 2:
            reqs.setdefault(parts[1], []).append(line.rstrip("\n"))
    imp = {}
    for line in open(os.path.join(sd, "impl.txt")):
        parts = line.rstrip("\n").split(" ", 2)
        if len(parts) < 2:
            continue
        imp.setdefault(parts[0], {}).setdefault(parts[1], []).append(parts[2] if len(parts) > 2 else "")
    mod = {}
    for line in open(os.path.join(sd, "model.txt")):
        parts = line.rstrip("\n").split(" ", 2)
        if len(parts) < 2:
            continue
        mod.setdefault(parts[0], {}).setdefault(parts[1], []).append(parts[2] if len(parts) > 2 else "")
    nontrivial = cfg.get("nontrivial")
    for cid, tags in mod.items():
        for cl in tags.get("C", []):
            kv = cl.split(" ")
            if len(kv) == 2 and kv[1].isdigit():
                counters.setdefault("driver", {})
                counters["driver"][kv[0]] = counters["driver"].get(kv[0], 0) + int(kv[1])
    for cid, req in reqs.items():
        counters["cases"] += 1
        im = imp.get(cid, {})
        mo = mod.get(cid, {})
        desc = " | ".join(im.get("D", []))
        h = hashlib.sha1("\n".join(req).encode()).hexdigest()
        if nontrivial is None or nontrivial(req, im):
            distinct.add(h)
        bads = []   # (kind, detail)
        I = im.get("I")
        extra = "".join(f"# G {g}\n" for g in im.get("G", []))
        allmo = " ".join(sum(mo.values(), []))
        if "bad-request" in allmo or "bad-prop" in allmo or not mo:
            rp = os.path.join(VERIF, "replays", f"{prop}-{h[:12]}.txt")
            open(rp, "w").write("\n".join(req) + f"\n# {desc}\n{extra}# driver rejected or did not answer the request\n")
            violations.append(("driver-bad-request", "driver-bad-request " + desc, rp, True))
        for hv in im.get("H", []):
            if not hv.startswith("ok"):
                counters["harness_fail"] += 1
                bads.append(("H", hv))
        for vv in mo.get("V", []):
            if not vv.startswith("ok"):
                counters["validator_fail"] += 1
                bads.append(("V", vv))
        # implementation lines `I<x>` are compared with the specification's `S<x>` (violation) and the
        # faithful model's `M<x>` (tie)
        for itag in [t for t in im if t.startswith("I")]:
            sfx = itag[1:]
            if "S" + sfx in mo and mo["S" + sfx] != im[itag]:
                counters["impl_violates_spec"] += 1
                bads.append(("S" + sfx, first_diff(im[itag], mo["S" + sfx])))
        for k, (kind, detail) in enumerate(bads):
            rp = os.path.join(VERIF, "replays", f"{prop}-{h[:12]}-{k}.txt")
            with open(rp, "w") as f:
                f.write("\n".join(req) + "\n")
                f.write(f"# {desc}\n{extra}# {kind}: {detail}\n")
            violations.append((kind, f"{kind} {desc} :: {detail}", rp, False))
        for itag in [t for t in im if t.startswith("I")]:
            sfx = itag[1:]
            if "M" + sfx in mo and mo["M" + sfx] != im[itag]:
                counters["model_disagrees_impl"] += 1
                tie_broken.append("\n".join(req) + f"\n# {desc}\n{extra}# model/impl differ ({itag}): {first_diff(im[itag], mo['M' + sfx])}")


def first_diff(a, b):
    a = " ".join(a).split(" ")
    b = " ".join(b).split(" ")
    for i, (x, y) in enumerate(zip(a, b)):
        if x != y:
            return f"field {i}: implementation {' '.join(a[max(0,i-2):i+3])!r} vs expected {' '.join(b[max(0,i-2):i+3])!r}"
    return f"length {len(a)} vs {len(b)}"


if __name__ == "__main__":
    main()
