#!/bin/sh
# tools/runall.sh [quick|thorough] — run every property's check in turn, print the summary lines
T="${1:-quick}"
cd /verif
rc=0
for i in 01 02 03 04 05 06 07 08 09 10 11 12 13 14 15 16 17 18 19 20; do
  python3 tools/check.py C$i --tier "$T" > work/runall_C$i.log 2>&1 || rc=1
  grep -E "^C$i \[|^VIOLATION" work/runall_C$i.log | cut -c1-200
done
exit $rc
