#!/bin/sh
# tools/mkscratch.sh NAME  — private working copy for developing or mutation-testing one property:
#   /tmp/w$NAME  copy of /verif (with warm build output), its harness pointing at
#   /tmp/r$NAME  a detached git worktree of /repo's HEAD (edit/patch it freely; /repo is untouched)
# Remove with: tools/rmscratch.sh NAME
set -e
N="$1"
[ -n "$N" ] || { echo "usage: mkscratch.sh NAME"; exit 2; }
rm -rf "/tmp/w$N"
git -C /repo worktree remove --force "/tmp/r$N" 2>/dev/null || true
rm -rf "/tmp/r$N"
git -C /repo worktree add --detach "/tmp/r$N" HEAD >/dev/null
cp /repo/Cargo.lock "/tmp/r$N/Cargo.lock"
mkdir -p "/tmp/w$N"
rsync -a --exclude "/work/" --exclude "/replays/" /verif/ "/tmp/w$N/" || true
mkdir -p "/tmp/w$N/work" "/tmp/w$N/replays"
sed -i "s#path = \"/repo/#path = \"/tmp/r$N/#" "/tmp/w$N/harness/Cargo.toml"
echo "scratch verif: /tmp/w$N   scratch repo: /tmp/r$N"
