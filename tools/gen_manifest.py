#!/usr/bin/env python3
"""Regenerates MANIFEST.json from tools/props.py + tools/manifest_text.py (kept valid at all times)."""
import json, os, sys
V = os.path.dirname(os.path.dirname(os.path.abspath(__file__)))
sys.path.insert(0, os.path.join(V, "tools"))
from manifest_text import CHECKS, NOT_APPLICABLE, HOOK_COMMITS

BASE = "cd /repo && cargo test --workspace --no-fail-fast --offline"
m = {
    "version": 1,
    "setup_cmd": "tools/setup.sh",
    "hooks": {
        "guard": "grmtools_verif",
        "enable": "RUSTFLAGS='--cfg grmtools_verif' and CARGO_TARGET_DIR=harness/target/hook (set by tools/check.py for the properties whose CONFIG says hooks: True — C02: trace of pager_stategraph; all other properties are built without the flag)",
        "baseline_off_cmd": BASE,
        "source_commits": HOOK_COMMITS,
        "add_only": True,
    },
    "engines": [
        {"name": "lean-model", "path": "lean/", "kind_free_text": "Lean 4 models, specifications and machine-checked theorems (lake project GrmVerif; native line-protocol driver gvdriver)",
         "serves_properties": sorted(CHECKS)},
        {"name": "vharness", "path": "harness/", "kind_free_text": "Rust correspondence/validation harness linking /repo's crates by path; generators, dumps, metamorphic checks",
         "serves_properties": sorted(CHECKS)},
        {"name": "check.py", "path": "tools/check.py", "kind_free_text": "orchestrator: extract, lake build + axiom audit, cargo build, run, diff, classify, known findings, evidence",
         "serves_properties": sorted(CHECKS)},
    ],
    "checks": [],
    "not_applicable": NOT_APPLICABLE,
    "notes": "Technique: machine-checked proof in Lean 4 over hand-written models, tied to /repo on every run by a correspondence/validation harness (see DESIGN.md). Known findings and fixes: known_findings.json. Hook commit 27a1a55 (lrtable/src/lib/pager.rs, mod.rs; only adds code under cfg(grmtools_verif)) is used by C02 alone; a copy is in patches/.",
}
for pid in sorted(CHECKS):
    c = CHECKS[pid]
    m["checks"].append({
        "property_id": pid,
        "quick_cmd": f"python3 tools/check.py {pid} --tier quick",
        "thorough_cmd": f"python3 tools/check.py {pid} --tier thorough",
        "evidence_file": f"evidence/{pid}.json",
        "replay_cmd_template": f"python3 tools/check.py {pid} --replay {{path}}",
        "engine": "lean-model",
        "level_claimed": {"category": c["category"], "text": c["text"], "design_ref": c["design_ref"]},
        "level_note": c["note"],
        "technique": c["technique"],
    })
json.dump(m, open(os.path.join(V, "MANIFEST.json"), "w"), indent=1)
print("MANIFEST.json:", len(m["checks"]), "checks,", len(NOT_APPLICABLE), "not_applicable")
