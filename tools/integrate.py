#!/usr/bin/env python3
"""tools/integrate.py Cnn — copy a property's new files from its scratch copy /tmp/wCnn into /verif and
add the one-line registrations to the shared files (Driver.lean, GrmVerif.lean, main.rs, props/mod.rs)."""
import os, re, shutil, subprocess, sys
prop = sys.argv[1]
W = f"/tmp/w{prop}"
V = "/verif"
out = subprocess.run(["git", "-C", W, "status", "--porcelain", "-uall"], capture_output=True, text=True).stdout
for line in out.splitlines():
    st, path = line[:2], line[3:]
    if st != "??":
        continue
    if path.split("/")[0] in ("evidence", "scratch", "patches", "replays", "work") or "__pycache__" in path:
        continue
    dst = os.path.join(V, path)
    os.makedirs(os.path.dirname(dst), exist_ok=True)
    shutil.copyfile(os.path.join(W, path), dst)
    print("copied", path)
low = prop.lower()
def add_line(path, anchor_re, newline, after=True):
    s = open(path).read()
    if newline in s:
        return
    lines = s.split("\n")
    idx = max(i for i, l in enumerate(lines) if re.search(anchor_re, l))
    lines.insert(idx + 1 if after else idx, newline)
    open(path, "w").write("\n".join(lines))
    print("registered in", path)
add_line(f"{V}/lean/Driver.lean", r"^import GrmVerif\.Drive\.", f"import GrmVerif.Drive.{prop}")
add_line(f"{V}/lean/Driver.lean", r'^\s*\| "C\d+" =>', f'  | "{prop}" => {prop}.handle args')
add_line(f"{V}/harness/src/main.rs", r'^\s*"C\d+" => props::', f'        "{prop}" => props::{low}::run(&a),')
add_line(f"{V}/harness/src/props/mod.rs", r"^pub mod c\d+;", f"pub mod {low};")
# GrmVerif.lean: import every module under Props/ and Drive/
mods = []
for sub in ("Props", "Drive"):
    for f in sorted(os.listdir(f"{V}/lean/GrmVerif/{sub}")):
        if f.endswith(".lean") and f != "Util.lean":
            mods.append(f"import GrmVerif.{sub}.{f[:-5]}")
open(f"{V}/lean/GrmVerif.lean", "w").write("import GrmVerif.Extracted\n" + "\n".join(mods) + "\n")
