#!/usr/bin/env python3
"""Translator for the mechanically translatable parts of /repo: named constants, tables and field
lists that the Lean models depend on.  Regenerates lean/GrmVerif/Extracted.lean on every run; exits
non-zero when the source no longer has the expected shape (a broken tie)."""
import os, re, sys

VERIF = os.path.dirname(os.path.dirname(os.path.abspath(__file__)))
_m = re.search(r'cfgrammar\s*=\s*\{\s*path\s*=\s*"([^"]+)/cfgrammar"', open(os.path.join(VERIF, "harness", "Cargo.toml")).read())
REPO = _m.group(1) if _m else "/repo"
OUT = os.path.join(os.path.dirname(os.path.dirname(os.path.abspath(__file__))), "lean", "GrmVerif", "Extracted.lean")


HOOK_GUARD = "#[cfg(grmtools_verif)]"


def strip_hooks(text):
    """The source as it is compiled with the hook guard OFF (which is how every property but C02 builds it):
    every item or statement behind `#[cfg(grmtools_verif)]` is removed — the attribute, further attributes and
    doc comments, then the item up to its closing `;` or `}` at nesting depth 0."""
    out = []
    i = 0
    while True:
        j = text.find(HOOK_GUARD, i)
        if j < 0:
            out.append(text[i:])
            break
        out.append(text[i:j])
        k = j + len(HOOK_GUARD)
        # further attributes / doc comments / blank space
        while True:
            m = re.match(r'\s*(#\[[^\n]*\]|///[^\n]*|//[^\n]*)', text[k:])
            if not m:
                break
            k += m.end()
        depth = 0
        opened_brace_at_top = False
        while k < len(text):
            c = text[k]
            if text.startswith("//", k):
                nl = text.find("\n", k)
                k = len(text) if nl < 0 else nl
                continue
            if c == '"':
                k += 1
                while k < len(text) and text[k] != '"':
                    k += 2 if text[k] == "\\" else 1
                k += 1
                continue
            if c in "([{":
                if c == "{" and depth == 0:
                    opened_brace_at_top = True
                depth += 1
            elif c in ")]}":
                depth -= 1
                if depth == 0 and c == "}" and opened_brace_at_top:
                    k += 1
                    break
                if depth < 0:
                    break
            elif c == ";" and depth == 0:
                k += 1
                break
            k += 1
        i = k
    return "".join(out)


def src(p):
    return strip_hooks(open(os.path.join(REPO, p), encoding="utf-8").read())


def const(text, name, path):
    m = re.search(r"const\s+%s\s*:\s*[A-Za-z0-9_<>]+\s*=\s*([0-9_]+)\s*;" % re.escape(name), text)
    if not m:
        raise SystemExit(f"extract: constant {name} not found in {path}")
    return int(m.group(1).replace("_", ""))


# ---- C11: tables of the lex escape scanner (lrlex/src/lib/parser.rs, regex-syntax) -----------------
POSIX_CLASSES = {"xdigit": [(48, 57), (65, 70), (97, 102)], "digit": [(48, 57)]}


def regex_static(text, name, path):
    """the pattern string of `static NAME: LazyLock<Regex> = LazyLock::new(|| { Regex::new(r"...") ..`"""
    m = re.search(r'static\s+%s\s*:\s*LazyLock<Regex>\s*=\s*LazyLock::new\(\|\|\s*\{?\s*Regex::new\(r(#?)"(.*?)"\1\)' % re.escape(name), text, re.S)
    if not m:
        raise SystemExit(f"extract: regex {name} not found in {path}")
    return m.group(2)


def parse_class(body, name):
    """items of a bracket class (without the brackets) -> list of inclusive code point ranges"""
    out, i = [], 0
    while i < len(body):
        if body.startswith("[:", i):
            j = body.index(":]", i)
            cls = body[i + 2:j]
            if cls not in POSIX_CLASSES:
                raise SystemExit(f"extract: {name}: unsupported POSIX class {cls}")
            out += POSIX_CLASSES[cls]
            i = j + 2
            continue
        if body[i] == "\\":
            c = body[i + 1]
            if c.isalnum():
                raise SystemExit(f"extract: {name}: unsupported escape \\{c} in class")
            i += 2
        else:
            c = body[i]
            i += 1
        if i + 1 < len(body) and body[i] == "-" and body[i + 1] != "]":
            hi = body[i + 1]
            out.append((ord(c), ord(hi)))
            i += 2
        else:
            out.append((ord(c), ord(c)))
    return out


def parse_esc_literal(pat, name):
    """`^(alt|alt|..)`, every alt a sequence of bracket classes (optionally parenthesised)
    -> list of alternatives, each a list of classes, each a list of ranges"""
    if not (pat.startswith("^(") and pat.endswith(")")):
        raise SystemExit(f"extract: {name} no longer has the shape ^(..|..)")
    body = pat[2:-1]
    alts, depth, cur, i, inclass = [], 0, "", 0, False
    while i < len(body):
        ch = body[i]
        if ch == "\\":
            cur += body[i:i + 2]; i += 2; continue
        if inclass:
            if body.startswith("[:", i):
                j = body.index(":]", i); cur += body[i:j + 2]; i = j + 2; continue
            if ch == "]":
                inclass = False
        elif ch == "[":
            inclass = True
        elif ch == "(":
            depth += 1
        elif ch == ")":
            depth -= 1
        elif ch == "|" and depth == 0:
            alts.append(cur); cur = ""; i += 1; continue
        cur += ch; i += 1
    alts.append(cur)
    res = []
    for a in alts:
        while a.startswith("(") and a.endswith(")"):
            a = a[1:-1]
        seq, i = [], 0
        while i < len(a):
            if a[i] != "[":
                raise SystemExit(f"extract: {name}: alternative {a!r} is not a sequence of classes")
            j, k = i + 1, i + 1
            while True:
                if a.startswith("[:", k):
                    k = a.index(":]", k) + 2
                elif a[k] == "\\":
                    k += 2
                elif a[k] == "]":
                    break
                else:
                    k += 1
            seq.append(parse_class(a[j:k], name))
            i = k + 1
        res.append(seq)
    return res


def rust_str(lit):
    """value of a (non-raw) Rust string literal body with only \\\\ \\" \\n \\t escapes"""
    out, i = "", 0
    while i < len(lit):
        if lit[i] == "\\":
            c = lit[i + 1]
            out += {"\\": "\\", '"': '"', "n": "\n", "t": "\t"}.get(c) or (_ for _ in ()).throw(SystemExit(f"extract: escape \\{c}"))
            i += 2
        else:
            out += lit[i]; i += 1
    return out


def regex_syntax_src():
    """src/lib.rs of the regex-syntax version that Cargo.lock pins"""
    import glob
    lock = None
    for cand in (os.path.join(REPO, "Cargo.lock"), os.path.join(VERIF, "harness", "Cargo.lock"), "/repo/Cargo.lock"):
        if os.path.exists(cand):
            lock = open(cand).read(); break
    if lock is None:
        raise SystemExit("extract: no Cargo.lock to find the regex-syntax version")
    m = re.search(r'name = "regex-syntax"\nversion = "([^"]+)"', lock)
    if not m:
        raise SystemExit("extract: regex-syntax not in Cargo.lock")
    home = os.environ.get("CARGO_HOME", os.path.expanduser("~/.cargo"))
    hits = glob.glob(os.path.join(home, "registry", "src", "*", "regex-syntax-" + m.group(1), "src", "lib.rs"))
    if not hits:
        raise SystemExit(f"extract: regex-syntax-{m.group(1)} sources not found under {home}")
    return open(hits[0], encoding="utf-8").read(), m.group(1)


def lean_str(s):
    return '"' + s.replace("\\", "\\\\").replace('"', '\\"') + '"'


def c11(out):
    lp = src("lrlex/src/lib/parser.rs")
    esc = regex_static(lp, "RE_LEX_ESC_LITERAL", "parser.rs")
    alts = parse_esc_literal(esc, "RE_LEX_ESC_LITERAL")
    out.append("/-- `RE_LEX_ESC_LITERAL` of lrlex/src/lib/parser.rs (anchored at the start of the text): alternatives,")
    out.append("each a sequence of character classes, each a list of inclusive code-point ranges -/")
    out.append("def RE_LEX_ESC_LITERAL : List (List (List (Nat × Nat))) := [" + ", ".join(
        "[" + ", ".join("[" + ", ".join(f"({a}, {b})" for a, b in cls) + "]" for cls in seq) + "]" for seq in alts) + "]")
    out.append(f"def RE_LEX_ESC_LITERAL_SRC : String := {lean_str(esc)}")
    rs, ver = regex_syntax_src()
    m = re.search(r"pub fn is_meta_character\(c: char\) -> bool \{\s*match c \{(.*?)=> true,\s*_ => false,", rs, re.S)
    if not m:
        raise SystemExit("extract: regex_syntax::is_meta_character no longer has the expected shape")
    metas = re.findall(r"'(\\.|[^'\\])'", m.group(1))
    if not metas or re.sub(r"'(\\.|[^'\\])'|[\s|]", "", m.group(1)):
        raise SystemExit("extract: unexpected pattern in is_meta_character")
    cps = [ord(x[1]) if x.startswith("\\") else ord(x) for x in metas]
    out.append(f"/-- `regex_syntax::is_meta_character` (regex-syntax {ver}, the version pinned by Cargo.lock) -/")
    out.append("def META_CHARACTERS : List Nat := [" + ", ".join(map(str, cps)) + "]")
    m = re.search(r'if c == \'b\' \{.*?if let Some\(true\) = lex_flags\.posix_escapes \{\s*"((?:[^"\\]|\\.)*)"\s*\}\s*else\s*\{\s*"((?:[^"\\]|\\.)*)"', lp, re.S)
    if not m:
        raise SystemExit("extract: the `\\b` arm of unescape no longer has the expected shape")
    out.append("/-- what the `b` arm of `unescape` pushes with / without `posix_escapes` -/")
    out.append("def B_POSIX : List Nat := [" + ", ".join(str(ord(c)) for c in rust_str(m.group(1))) + "]")
    out.append("def B_PLAIN : List Nat := [" + ", ".join(str(ord(c)) for c in rust_str(m.group(2))) + "]")
    for n in ("RE_START_STATE_NAME", "RE_INCLUSIVE_START_STATE_DECLARATION", "RE_EXCLUSIVE_START_STATE_DECLARATION",
              "RE_LINE_SEP", "RE_SPACE_SEP", "RE_WS"):
        out.append(f"def {n}_SRC : String := {lean_str(regex_static(lp, n, 'parser.rs'))}")
    m = re.search(r'const INITIAL_START_STATE_NAME: &str = "([^"]*)";', lp)
    if not m:
        raise SystemExit("extract: INITIAL_START_STATE_NAME not found")
    out.append(f"def INITIAL_START_STATE_NAME : String := {lean_str(m.group(1))}")
    lx = src("lrlex/src/lib/lexer.rs")
    m = re.search(r"pub struct LexFlags \{(.*?)\n\}", lx, re.S)
    if not m:
        raise SystemExit("extract: struct LexFlags not found")
    fields = re.findall(r"pub (\w+): Option<(\w+)>", m.group(1))
    bools = [f for f, t in fields if t == "bool"]
    out.append("/-- the boolean fields of `LexFlags`, in declaration order -/")
    out.append("def LEX_FLAG_NAMES : List String := [" + ", ".join(lean_str(f) for f in bools) + "]")
    m = re.search(r"pub const DEFAULT_LEX_FLAGS: LexFlags = LexFlags \{(.*?)\};", lx, re.S)
    if not m:
        raise SystemExit("extract: DEFAULT_LEX_FLAGS not found")
    dv = dict(re.findall(r"(\w+): (Some\(\w+\)|None)", m.group(1)))
    vals = []
    for f in bools:
        v = dv.get(f)
        if v not in ("Some(true)", "Some(false)", "None"):
            raise SystemExit(f"extract: DEFAULT_LEX_FLAGS.{f} = {v}")
        vals.append({"Some(true)": "some true", "Some(false)": "some false", "None": "none"}[v])
    out.append("/-- `DEFAULT_LEX_FLAGS`, boolean fields, same order -/")
    out.append("def DEFAULT_LEX_FLAGS : List (Option Bool) := [" + ", ".join(vals) + "]")
    out.append("")


def c20_guards():
    """C20: the condition of each `if … { panic!("StorageT is not big enough …") }` in
    new_from_ast_with_validity_info, pager.rs and the two state-count `assert!`s, as text with
    whitespace removed.  Never fails: the C20 driver (Drive/C20.lean, request `2`) compares the list
    with the shapes Model/Width.lean transcribes, so a changed guard breaks only C20's tie."""
    items = []
    g = src("cfgrammar/src/lib/yacc/grammar.rs")
    for m in re.finditer(r"if\s+([^{}]*?)\s*\{\s*panic!\(\s*\"StorageT is not big enough to store ([^\"]*?)\.?\"", g):
        items.append(("grammar:" + m.group(2).strip(), re.sub(r"\s+", "", m.group(1))))
    pg = src("lrtable/src/lib/pager.rs")
    for m in re.finditer(r"if\s+([^{}]*?)\s*\{\s*panic!\(\s*\"StorageT is not big enough to store ([^\"]*?)\.?\"", pg):
        items.append(("pager:" + m.group(2).strip(), re.sub(r"\s+", "", m.group(1))))
    for path, tag in (("lrtable/src/lib/stategraph.rs", "stategraph"), ("lrtable/src/lib/statetable.rs", "statetable")):
        for m in re.finditer(r"assert!\(([^;]*?max_value\(\)[^;]*?)\);", src(path)):
            items.append((tag + ":assert", re.sub(r"\s+", "", m.group(1))))
    lx = src("lrlex/src/lib/parser.rs")
    for m in re.finditer(r"let\s+tok_id\s*=\s*([A-Za-z0-9_:]+::try_from\([a-z_]+\))", lx):
        items.append(("lexer:tok_id", re.sub(r"\s+", "", m.group(1))))
    esc = lambda t: t.replace("\\", "\\\\").replace('"', '\\"')
    body = ",\n   ".join('("%s", "%s")' % (esc(a), esc(b)) for a, b in items)
    return ["", "/-- C20: the width guards' conditions as written in the source (whitespace removed) -/",
            "def C20_GUARDS : List (String × String) :=\n  [" + body + "]"]


# ---- C18: which builder fields enter the rebuild cache (lrpar/lrlex ctbuilder.rs) --------------------
def struct_fields(text, name, path):
    """[(field, cfg_test)] of `pub struct NAME<…> where … { … }` (top-level fields only)"""
    m = re.search(r"pub struct %s\b[^{;]*\{" % re.escape(name), text)
    if not m:
        raise SystemExit(f"extract: struct {name} not found in {path}")
    i, depth, body = m.end(), 1, []
    while depth and i < len(text):
        ch = text[i]
        depth += ch == "{"
        depth -= ch == "}"
        body.append(ch)
        i += 1
    body = re.sub(r"//[^\n]*", "", "".join(body[:-1]))
    fields, angle, paren, cur = [], 0, 0, ""
    for ch in body:                      # split at top-level commas
        if ch in "<": angle += 1
        if ch in ">" and angle and not cur.endswith("-"): angle -= 1
        if ch in "([{": paren += 1
        if ch in ")]}": paren -= 1
        if ch == "," and angle == 0 and paren == 0:
            fields.append(cur); cur = ""
        else:
            cur += ch
    fields.append(cur)
    out = []
    for f in fields:
        f = f.strip()
        if not f:
            continue
        cfg_test = "#[cfg(test)]" in f
        f = re.sub(r"#\[[^\]]*\]", "", f).strip()
        mm = re.match(r"(?:pub(?:\([^)]*\))?\s+)?(\w+)\s*:", f)
        if not mm:
            raise SystemExit(f"extract: cannot read a field of {name} in {path}: {f[:60]!r}")
        out.append((mm.group(1), cfg_test))
    return out


def c18(out):
    sys.path.insert(0, os.path.join(VERIF, "tools"))
    from propcfg.C18 import PARSER_FIELDS_NOT_IN_CACHE, LEXER_FIELDS_AUDITED
    pp = "lrpar/src/lib/ctbuilder.rs"
    t = src(pp)
    fields = [f for f, _ in struct_fields(t, "CTParserBuilder", pp)]
    m = re.search(r"fn rebuild_cache\(.*?let Self \{(.*?)\} = self;(.*?)\n    \}\n", t, re.S)
    if not m:
        raise SystemExit("extract: rebuild_cache no longer has the shape `let Self { … } = self;`")
    pat = re.sub(r"//[^\n]*", "", m.group(1))
    pat = re.sub(r"#\[[^\]]*\]", "", pat)
    if ".." in pat:
        raise SystemExit("extract: rebuild_cache destructures `Self` with `..`: new fields would bypass the cache silently")
    bound, ignored = [], []
    for item in pat.split(","):
        item = item.strip()
        if not item:
            continue
        mm = re.match(r"(\w+)\s*(?::\s*(\w+))?$", item)
        if not mm:
            raise SystemExit(f"extract: unexpected pattern item in rebuild_cache: {item!r}")
        (ignored if mm.group(2) == "_" else bound).append(mm.group(1))
    if sorted(bound + ignored) != sorted(fields):
        raise SystemExit(f"extract: rebuild_cache destructures {sorted(bound + ignored)} but CTParserBuilder has {sorted(fields)}")
    q = re.search(r"let cache_info = quote! \{(.*?)\};", m.group(2), re.S)
    if not q:
        raise SystemExit("extract: `cache_info = quote! {…}` not found in rebuild_cache")
    for f in bound:
        if not re.search(r"#%s\b" % f, q.group(1)):
            raise SystemExit(f"extract: builder field {f} is bound in rebuild_cache but not written into the cache string")
    new = sorted(set(ignored) - set(PARSER_FIELDS_NOT_IN_CACHE))
    if new:
        raise SystemExit(f"extract: CTParserBuilder field(s) {new} are neither in the cache string nor in the audited "
                         "exclusion list (tools/propcfg/C18.py PARSER_FIELDS_NOT_IN_CACHE)")
    gone = sorted(set(PARSER_FIELDS_NOT_IN_CACHE) - set(ignored))
    if gone:
        raise SystemExit(f"extract: audited exclusion list names {gone}, which rebuild_cache no longer ignores: re-audit")
    if not re.search(r"FileTime::from_last_modification_time\(out_rs_md\)\s*>\s*FileTime::from_last_modification_time\(inmd\)", t):
        raise SystemExit("extract: the up-to-date test `mtime(out) > mtime(in)` of CTParserBuilder::build changed shape")
    if "outc.contains(&cache.to_string())" not in t:
        raise SystemExit("extract: the cache comparison `outc.contains(&cache.to_string())` changed shape")
    lp = "lrlex/src/lib/ctbuilder.rs"
    tl = src(lp)
    lfields = [f for f, _ in struct_fields(tl, "CTLexerBuilder", lp)]
    new = sorted(set(lfields) - set(LEXER_FIELDS_AUDITED))
    if new:
        raise SystemExit(f"extract: CTLexerBuilder field(s) {new} are not in the audited list (tools/propcfg/C18.py LEXER_FIELDS_AUDITED)")
    gone = sorted(set(LEXER_FIELDS_AUDITED) - set(lfields))
    if gone:
        raise SystemExit(f"extract: audited CTLexerBuilder field(s) {gone} no longer exist: re-audit")
    if not re.search(r"if let Ok\(curs\) = read_to_string\(outp\)\s*&& curs == outs", tl):
        raise SystemExit("extract: CTLexerBuilder::build no longer compares the generated text with the existing file")
    if re.search(r"from_last_modification_time|fs::metadata", tl):
        raise SystemExit("extract: CTLexerBuilder now looks at file metadata: the lexer side of Model/Build.lean has no mtime test")
    out.append("/-- C18: fields of `CTParserBuilder` written into the rebuild cache string / audited as not needed there -/")
    out.append("def C18_PARSER_CACHE_FIELDS : List String := [" + ", ".join(lean_str(f) for f in bound) + "]")
    out.append("def C18_PARSER_EXCLUDED_FIELDS : List String := [" + ", ".join(lean_str(f) for f in ignored) + "]")
    out.append("/-- C18: fields of `CTLexerBuilder` (no cache: the generated text is compared with the file) -/")
    out.append("def C18_LEXER_FIELDS : List String := [" + ", ".join(lean_str(f) for f in lfields) + "]")
    out.append("/-- C18: the parser builder's up-to-date test is the strict `mtime(out) > mtime(grammar)` -/")
    out.append("def C18_MTIME_STRICT : Bool := true")
    out.append("")


# ---- C15: every iteration over a randomly seeded std HashMap/HashSet in the build pipeline ----------
C15_FILES = ["cfgrammar/src/lib/yacc/ast.rs", "cfgrammar/src/lib/yacc/grammar.rs", "cfgrammar/src/lib/yacc/parser.rs",
             "cfgrammar/src/lib/yacc/firsts.rs", "cfgrammar/src/lib/yacc/follows.rs", "cfgrammar/src/lib/header.rs",
             "lrtable/src/lib/pager.rs", "lrtable/src/lib/itemset.rs", "lrtable/src/lib/statetable.rs",
             "lrtable/src/lib/stategraph.rs", "lrtable/src/lib/mod.rs",
             "lrpar/src/lib/ctbuilder.rs", "lrpar/src/lib/cpctplus.rs", "lrpar/src/lib/parser.rs",
             "lrpar/src/lib/dijkstra.rs", "lrpar/src/lib/mf.rs", "lrpar/src/lib/lex_api.rs",
             "lrlex/src/lib/ctbuilder.rs", "lrlex/src/lib/lexer.rs", "lrlex/src/lib/parser.rs"]
_ITER = r"\.(?:iter|iter_mut|keys|values|values_mut|into_iter|into_keys|into_values|drain)\((?:\.\.)?\)"


def c15_sites():
    """(file, enclosing fn, normalised source line) of every place where something that is (or contains) a std
    `HashMap`/`HashSet` with the default `RandomState` hasher is iterated, in non-test code. Names are
    collected per file from declarations (`name: ..HashMap<`, `let [mut] name = HashSet::new()`,
    `let [mut] name: ..HashMap`, `fn name(..) -> ..HashMap<`) plus the cross-file accessors below."""
    sites = []
    texts = {}
    for path in C15_FILES:
        try:
            texts[path] = src(path)
        except OSError:
            continue
    fields = set()
    for text in texts.values():
        # struct fields / parameters of hash type are visible from other files (`ast.implicit_tokens`, ...)
        for m in re.finditer(r"\bpub\s+(\w+)\s*:\s*(?:Option<\s*)?Hash(?:Map|Set)\s*<(?![^;\n]*BuildHasherDefault)", text):
            fields.add(m.group(1))
    for path, text in texts.items():
        cut = re.search(r"\n#\[cfg\(test\)\]\s*\n(?:pub(?:\([^)]*\))?\s+)?mod tests?\b", text)
        if cut:
            text = text[:cut.start()]
        text = re.sub(r"//[^\n]*", "", text)
        names = set()
        for m in re.finditer(r"\b(\w+)\s*:\s*[^;=\n{]*?\bHash(?:Map|Set)\s*<", text):
            names.add(m.group(1))
        for m in re.finditer(r"\blet\s+(?:mut\s+)?(\w+)\s*(?::[^=;]*)?=\s*[^;]*?\bHash(?:Map|Set)\b", text):
            names.add(m.group(1))
        for m in re.finditer(r"\bfn\s+(\w+)\s*(?:<[^>]*>)?\s*\([^)]*\)\s*->\s*[^{;]*?\bHash(?:Map|Set)\s*<", text):
            names.add(m.group(1) + "()")
        # maps reached through accessors / closure parameters defined in another file
        names |= {"edges()", "tokens_map()", "token_map()", "rule_ids_map", "owned_map", "edges", "gc_edges"} | fields
        # a custom, unseeded hasher is not a random order: Itemset.items uses BuildHasherDefault<FnvHasher>
        det = set(re.findall(r"\b(\w+)\s*:\s*HashMap<[^;]*BuildHasherDefault", text))
        det |= set(re.findall(r"\blet\s+(?:mut\s+)?(\w+)\s*:\s*HashSet<[^;=]*BuildHasherDefault", text, re.S))
        names -= det
        names.discard("self")
        # aliases: `if let Some(a) = &x.name`, `let a = &x.name;`, `for a in name`, `for (i, a) in name.drain(..).enumerate()`
        for _ in range(4):
            plain = [re.escape(n) for n in names if not n.endswith("()")]
            alt = "(?:" + "|".join(plain) + ")"
            new = set()
            for m in re.finditer(r"\b(?:if|while)\s+let\s+Some\(\s*(?:ref\s+)?(?:mut\s+)?(\w+)\s*\)\s*=\s*&?(?:mut\s+)?(?:\w+\.)*" + alt + r"(?:\s*\.\s*(?:as_ref|as_mut)\(\))?\s*[{&]", text):
                new.add(m.group(1))
            for m in re.finditer(r"\bfor\s+(\w+)\s+in\s+&?(?:mut\s+)?(?:\w+\.)*" + alt + r"\s*\{", text):
                new.add(m.group(1))
            for m in re.finditer(r"\bfor\s+\(\s*\w+\s*,\s*(\w+)\s*\)\s+in\s+(?:\w+\.)*" + alt + r"\s*\.\s*(?:drain\(\.\.\)|iter\(\)|into_iter\(\))\s*\.\s*enumerate\(\)", text):
                new.add(m.group(1))
            new -= det
            if new <= names:
                break
            names |= new
        fn = "?"
        stmts = []
        # statements: join lines until ';' or '{' so that method chains split over lines are seen whole
        buf, bfn = "", "?"
        for line in text.split("\n"):
            m = re.match(r"\s*(?:pub(?:\([^)]*\))?\s+)?(?:const\s+)?(?:unsafe\s+)?fn\s+(\w+)", line)
            if m:
                fn = m.group(1)
            if not buf:
                bfn = fn
            buf += " " + line.strip()
            if line.rstrip().endswith((";", "{", "}", ",")) and buf.count("(") <= buf.count(")"):
                stmts.append((bfn, buf.strip()))
                buf = ""
        if buf.strip():
            stmts.append((bfn, buf.strip()))
        for fn, st in stmts:
            hit = False
            for n in names:
                base = re.escape(n[:-2]) + r"\([^()]*\)" if n.endswith("()") else r"\b" + re.escape(n) + r"\b"
                tail = r"(?:\s*\[[^\]]*\])?(?:\s*\.\s*(?:as_ref|as_mut|unwrap|borrow|clone|lock|expect)\([^()]*\))*"
                if re.search(base + tail + r"\s*" + _ITER, st):
                    hit = True
                if re.search(r"\bfor\b[^;{]*\bin\s+&?(?:mut\s+)?(?:\w+\.)*" + base + tail + r"\s*\{", st):
                    hit = True
                if re.search(r"\.extend\(\s*&?(?:\w+\.)*" + base + tail + r"\s*\)", st):
                    hit = True
            if hit:
                sites.append((path, fn, re.sub(r"\s+", " ", st)[:160]))
    return sites


def c15_statics():
    """(file, name, kind) of every `static` item, `thread_local!` and `lazy_static!` in the non-test code of the
    four library crates, including statics inside `quote!` blocks (they end up in generated parsers): the
    places where state could be shared between two parses or two threads."""
    res = []
    files = list(C15_FILES)
    # every library source file of the four crates (new files included)
    for crate in ("cfgrammar", "lrtable", "lrpar", "lrlex"):
        root = os.path.join(REPO, crate, "src", "lib")
        for dp, _, fns in os.walk(root):
            for fn in sorted(fns):
                if fn.endswith(".rs"):
                    rel = os.path.relpath(os.path.join(dp, fn), REPO)
                    if rel not in files:
                        files.append(rel)
    for path in files:
        try:
            text = src(path)
        except OSError:
            continue
        m = re.search(r"#\[cfg\(test\)\]\s*\n\s*(?:pub\s+)?mod\s+\w+", text)
        body = text if not m else text[:m.start()]
        for m in re.finditer(r"^\s*(?:pub(?:\([^)]*\))?\s+)?static\s+(mut\s+)?(\w+)\s*:\s*([^=;]*)", body, re.M):
            ty = re.sub(r"\s+", " ", m.group(3)).strip()
            res.append((path, m.group(2), ("static mut " if m.group(1) else "static ") + ty[:60]))
        for m in re.finditer(r"\b(thread_local|lazy_static)!", body):
            res.append((path, m.group(1) + "!", "macro"))
    return res


def c15(out):
    """cross-check with the audited list (tools/propcfg/C15.py AUDIT): a site that was never classified
    breaks the tie for C15 (and is reported by every check, since the extraction is shared)."""
    sys.path.insert(0, os.path.dirname(os.path.abspath(__file__)))
    try:
        from propcfg.C15 import AUDIT
    except ImportError:
        return
    sites = c15_sites()
    known = {(a["file"], a["fn"], a["code"]) for a in AUDIT}
    wd = os.path.join(VERIF, "work")
    os.makedirs(wd, exist_ok=True)
    with open(os.path.join(wd, "hash_iteration_sites.txt"), "w") as f:
        for s in sites:
            f.write(("audited    " if s in known else "UNAUDITED  ") + " | ".join(s) + "\n")
    new = [s for s in sites if s not in known]
    # shared state: every static must be in the audited list too (immutable tables, build-time registries,
    # the write-once parser data of generated parsers)
    try:
        from propcfg.C15 import AUDIT_STATICS
    except ImportError:
        AUDIT_STATICS = None
    if AUDIT_STATICS is not None:
        kstat = {(a["file"], a["name"], a["kind"]) for a in AUDIT_STATICS}
        stat = c15_statics()
        with open(os.path.join(wd, "static_items.txt"), "w") as f:
            for s in stat:
                f.write(("audited    " if s in kstat else "UNAUDITED  ") + " | ".join(s) + "\n")
        new += [("static item", ) + s for s in stat if s not in kstat]
        out.append(f"/-- C15: number of `static` items in the library crates (all audited: none is mutable state shared between parses) -/")
        out.append(f"def C15_STATIC_ITEMS : Nat := {len(stat)}")
    out.append(f"/-- C15: number of iteration sites over randomly seeded hash collections found in /repo (all audited) -/")
    out.append(f"def C15_HASH_ITERATION_SITES : Nat := {len(sites)}")
    out.append("")
    return new


# ---- C10: names of the rules cfgrammar adds, and the two lexical regexes of the Yacc parser ----------
def c10(out):
    g = src("cfgrammar/src/lib/yacc/grammar.rs")
    for n in ("START_RULE", "IMPLICIT_RULE", "IMPLICIT_START_RULE"):
        m = re.search(r'const\s+%s\s*:\s*&str\s*=\s*"((?:[^"\\]|\\.)*)"\s*;' % n, g)
        if not m:
            raise SystemExit(f"extract: constant {n} not found in yacc/grammar.rs")
        out.append(f"def YACC_{n} : List Nat := [" + ", ".join(str(ord(c)) for c in rust_str(m.group(1))) + "]")
    yp = src("cfgrammar/src/lib/yacc/parser.rs")
    for n in ("RE_NAME", "RE_TOKEN"):
        m = re.search(r'static\s+%s\s*:\s*LazyLock<Regex>\s*=\s*LazyLock::new\(\|\|\s*Regex::new\((r?)"((?:[^"\\]|\\.)*)"\)' % n, yp, re.S)
        if not m:
            raise SystemExit(f"extract: regex {n} not found in yacc/parser.rs")
        pat = m.group(2) if m.group(1) else rust_str(m.group(2))
        out.append(f"def YACC_{n}_SRC : String := {lean_str(pat)}")
    out.append("")


# C14: field lists of the #[derive(SchemaRead, SchemaWrite)] types reachable from YaccGrammar/StateTable

WINCODE_ROOTS = ["YaccGrammar", "StateTable"]
WINCODE_REPO_FILES = ["cfgrammar/src/lib/yacc/grammar.rs", "cfgrammar/src/lib/mod.rs", "cfgrammar/src/lib/idxnewtype.rs",
                      "cfgrammar/src/lib/span.rs", "cfgrammar/src/lib/yacc/parser.rs", "lrtable/src/lib/statetable.rs",
                      "lrtable/src/lib/mod.rs"]
WINCODE_DEP_CRATES = ["vob", "sparsevec", "packedvec"]
WINCODE_PRIMS = {"u8", "u16", "u32", "u64", "usize", "bool", "String"}


class SchemaError(SystemExit):
    """the derive structs no longer have a shape the schema language can express (SystemExit, so that a
    per-property `section(...)` wrapper of main() can catch it like the other extractors' failures)"""
    pass


def locked_version(crate):
    for cand in (os.path.join(REPO, "Cargo.lock"), os.path.join(VERIF, "harness", "Cargo.lock")):
        if os.path.exists(cand):
            m = re.search(r'name = "%s"\nversion = "([^"]+)"' % re.escape(crate), open(cand).read())
            if m:
                return m.group(1)
    raise SchemaError(f"{crate}: no version in Cargo.lock")


def dep_source(crate):
    import glob
    ver = locked_version(crate)
    hits = glob.glob(os.path.expanduser(f"~/.cargo/registry/src/*/{crate}-{ver}/src/lib.rs"))
    if not hits:
        raise SchemaError(f"{crate}-{ver}: source not found in the cargo registry")
    return f"{crate}-{ver}/src/lib.rs", open(hits[0], encoding="utf-8").read()


def strip_rust_comments(t):
    t = re.sub(r"/\*.*?\*/", "", t, flags=re.S)
    return re.sub(r"//[^\n]*", "", t)


def split_top(s, sep=","):
    out, depth, cur = [], 0, ""
    prev = ""
    for ch in s:
        if ch in "<([{":
            depth += 1
        elif ch in ")]}":
            depth -= 1
        elif ch == ">" and prev != "-":
            depth -= 1
        if ch == sep and depth == 0:
            out.append(cur)
            cur = ""
        else:
            cur += ch
        prev = ch
    if cur.strip():
        out.append(cur)
    return out


def parse_rty(t, where):
    """Rust type text -> ('path', name, [args]) | ('tuple', [..]) | ('bslice', t); anything else is refused"""
    t = t.strip()
    if t.startswith("(") and t.endswith(")"):
        return ("tuple", [parse_rty(x, where) for x in split_top(t[1:-1])])
    m = re.fullmatch(r"(?:[A-Za-z_][A-Za-z0-9_]*::)*Box\s*<\s*\[(.*)\]\s*>", t, re.S)
    if m:
        return ("bslice", parse_rty(m.group(1), where))
    m = re.fullmatch(r"((?:[A-Za-z_][A-Za-z0-9_]*::)*[A-Za-z_][A-Za-z0-9_]*)\s*(?:<(.*)>)?", t, re.S)
    if not m:
        raise SchemaError(f"{where}: type `{t}` is not expressible in the schema language (references, arrays, "
                          f"function types, trait objects, lifetimes are not supported)")
    name = m.group(1).split("::")[-1]
    args = [parse_rty(x, where) for x in split_top(m.group(2))] if m.group(2) else []
    return ("path", name, args)


def parse_generics(g):
    """`<StorageT = u32, T>` -> [(name, default text or None)]"""
    if not g:
        return []
    out = []
    for x in split_top(g):
        x = x.strip()
        if not x or x.startswith("'") or x.startswith("const "):
            if x:
                raise SchemaError(f"generic parameter `{x}` not supported")
            continue
        name, _, dflt = x.partition("=")
        name = name.split(":")[0].strip()
        out.append((name, dflt.strip() or None))
    return out


def parse_fields(body, where, named):
    """fields of a struct / variant body, in order: [(name, rty)]; cfg(test) fields are not compiled in"""
    fields = []
    for k, raw in enumerate(split_top(body)):
        raw = raw.strip()
        if not raw:
            continue
        attrs = re.findall(r"#\s*\[(.*?)\]", raw, re.S)
        raw = re.sub(r"#\s*\[.*?\]", "", raw, flags=re.S).strip()
        if any(re.match(r"cfg\s*\(\s*test\s*\)", a.strip()) for a in attrs):
            continue
        for a in attrs:
            if re.match(r"(cfg_attr\s*\(.*)?wincode\b", a.strip()) or "wincode(" in a:
                raise SchemaError(f"{where}: field `{raw}` carries #[{a}]: attribute-customised encodings are not expressible")
            if a.strip().startswith("cfg"):
                raise SchemaError(f"{where}: field `{raw}` is conditional on #[{a}]")
        raw = re.sub(r"^pub\s*(\([^)]*\))?\s*", "", raw)
        if named:
            name, _, ty = raw.partition(":")
            fields.append((name.strip(), parse_rty(ty, f"{where}.{name.strip()}")))
        else:
            fields.append((str(k), parse_rty(raw, f"{where}.{k}")))
    return fields


def matching(text, i, open_ch, close_ch):
    depth = 0
    for j in range(i, len(text)):
        if text[j] == open_ch:
            depth += 1
        elif text[j] == close_ch:
            depth -= 1
            if depth == 0:
                return j
    raise SchemaError("unbalanced delimiters")


DERIVE_RE = re.compile(r"#\s*\[\s*(?:cfg_attr\s*\(\s*feature\s*=\s*\"wincode\"\s*,\s*)?derive\s*\(([^)]*)\)\s*\)?\s*\]")


def wincode_items(path, text):
    """all derive(SchemaRead, SchemaWrite) items of one file: name -> def"""
    text = strip_rust_comments(text)
    defs = {}
    aliases = dict(re.findall(r"pub\s+type\s+([A-Za-z0-9_]+)\s*=\s*([^;]+);", text))
    # newtype macros: a macro_rules! whose body derives the schema traits for `pub struct $n<T>(pub T);`
    for mm in re.finditer(r"macro_rules!\s*([A-Za-z0-9_]+)\s*\{", text):
        end = matching(text, mm.end() - 1, "{", "}")
        body = text[mm.end():end]
        if "SchemaRead" in body and "SchemaWrite" in body:
            sm = re.search(r"pub\s+struct\s+\$n\s*<\s*([A-Za-z0-9_]+)\s*>\s*\(([^)]*)\)\s*;", body)
            if not sm:
                raise SchemaError(f"{path}: macro {mm.group(1)} derives the schema traits for an item of unexpected shape")
            for inv in re.finditer(re.escape(mm.group(1)) + r"!\s*\(", text[end:]):
                a = end + inv.end() - 1
                b = matching(text, a, "(", ")")
                inner = re.sub(r"#\s*\[.*?\]", "", text[a + 1:b], flags=re.S).strip()
                if not re.fullmatch(r"[A-Za-z0-9_]+", inner):
                    raise SchemaError(f"{path}: invocation of {mm.group(1)}! with `{inner}`")
                defs[inner] = {"name": inner, "params": [(sm.group(1), None)], "enum": False,
                               "items": [("", parse_fields(sm.group(2), f"{inner}", False))], "src": path}
            text = text[:mm.start()] + " " * (end + 1 - mm.start()) + text[end + 1:]
    for dm in DERIVE_RE.finditer(text):
        traits = [x.strip() for x in dm.group(1).split(",")]
        if "SchemaRead" not in traits and "SchemaWrite" not in traits:
            continue
        im = re.compile(r"(?:\s*#\s*\[.*?\]\s*)*\s*pub(?:\([^)]*\))?\s+(struct|enum)\s+([A-Za-z0-9_]+)\s*(<[^{(;]*>)?\s*([({;])", re.S).match(text, dm.end())
        if not im:
            raise SchemaError(f"{path}: derive(SchemaRead/SchemaWrite) not followed by a struct or enum")
        kind, name, gen, opener = im.groups()
        where = name
        if ("SchemaRead" in traits) != ("SchemaWrite" in traits):
            raise SchemaError(f"{path}: {name} derives only one of SchemaRead/SchemaWrite")
        head = text[dm.start() - 400 if dm.start() > 400 else 0:im.end()]
        if re.search(r"#\s*\[\s*wincode\s*\(", text[dm.start():im.end()]):
            raise SchemaError(f"{path}: {name} carries a container-level #[wincode(..)] attribute: not expressible")
        params = parse_generics(gen[1:-1] if gen else "")
        if kind == "struct":
            if opener == "{":
                end = matching(text, im.end() - 1, "{", "}")
                items = [("", parse_fields(text[im.end():end], where, True))]
            elif opener == "(":
                end = matching(text, im.end() - 1, "(", ")")
                items = [("", parse_fields(text[im.end():end], where, False))]
            else:
                items = [("", [])]
        else:
            end = matching(text, im.end() - 1, "{", "}")
            items = []
            for v in split_top(text[im.end():end]):
                attrs = re.findall(r"#\s*\[(.*?)\]", v, re.S)
                v = re.sub(r"#\s*\[.*?\]", "", v, flags=re.S).strip()
                if not v:
                    continue
                for a in attrs:
                    if "wincode" in a or a.strip().startswith("cfg"):
                        raise SchemaError(f"{path}: {name}::{v} carries #[{a}]: not expressible")
                vm = re.fullmatch(r"([A-Za-z0-9_]+)\s*(?:\((.*)\)|\{(.*)\})?\s*(=.*)?", v, re.S)
                if not vm or vm.group(4):
                    raise SchemaError(f"{path}: {name}: variant `{v}` (explicit discriminants are not expressible)")
                if vm.group(2) is not None:
                    items.append((vm.group(1), parse_fields(vm.group(2), f"{name}::{vm.group(1)}", False)))
                elif vm.group(3) is not None:
                    items.append((vm.group(1), parse_fields(vm.group(3), f"{name}::{vm.group(1)}", True)))
                else:
                    items.append((vm.group(1), []))
        defs[name] = {"name": name, "params": params, "enum": kind == "enum", "items": items, "src": path}
    return defs, aliases


def rty_lean(t):
    if t[0] == "tuple":
        return ".tuple [" + ", ".join(rty_lean(x) for x in t[1]) + "]"
    if t[0] == "bslice":
        return ".boxedSlice (" + rty_lean(t[1]) + ")"
    return f".path {lean_str(t[1])} [" + ", ".join(rty_lean(x) for x in t[2]) + "]"


def c14(out):
    defs, aliases = {}, {}
    sources = []
    for f in WINCODE_REPO_FILES:
        d, a = wincode_items(f, src(f))
        defs.update(d)
        aliases.update(a)
        if d:
            sources.append(f)
    for c in WINCODE_DEP_CRATES:
        pth, text = dep_source(c)
        d, a = wincode_items(pth, text)
        defs.update(d)
        aliases.update(a)
        sources.append(pth)

    def norm(t, where, tparams):
        """resolve aliases, fill default generic arguments, check expressibility"""
        if t[0] == "tuple":
            return ("tuple", [norm(x, where, tparams) for x in t[1]])
        if t[0] == "bslice":
            return ("bslice", norm(t[1], where, tparams))
        name, args = t[1], t[2]
        if name in aliases and not args and name not in defs:
            return norm(parse_rty(aliases[name], where), where, tparams)
        args = [norm(x, where, tparams) for x in args]
        if name in tparams or name in WINCODE_PRIMS:
            if args:
                raise SchemaError(f"{where}: `{name}` with type arguments")
            return ("path", name, [])
        if name in ("Vec", "Option"):
            if len(args) != 1:
                raise SchemaError(f"{where}: `{name}` needs one type argument")
            return ("path", name, args)
        if name in defs:
            ps = defs[name]["params"]
            if len(args) > len(ps):
                raise SchemaError(f"{where}: too many type arguments for {name}")
            for (pn, dflt) in ps[len(args):]:
                if dflt is None:
                    raise SchemaError(f"{where}: {name} lacks the type argument {pn}")
                args.append(norm(parse_rty(dflt, where), where, tparams))
            reach(name)
            return ("path", name, args)
        raise SchemaError(f"{where}: type `{name}` is neither a primitive the schema language has, nor Vec/Option/Box<[..]>/tuple, "
                          f"nor a type deriving SchemaRead+SchemaWrite in the scanned sources")

    reached = []

    def reach(name):
        if name in reached:
            return
        reached.append(name)
        d = defs[name]
        tps = [p for p, _ in d["params"]]
        d["nitems"] = [(vn, [(fn, norm(ft, f"{name}{'::' + vn if vn else ''}.{fn}", tps)) for fn, ft in fs]) for vn, fs in d["items"]]

    for r in WINCODE_ROOTS:
        if r not in defs:
            raise SchemaError(f"{r} no longer derives SchemaRead/SchemaWrite (or its definition moved)")
        reach(r)
    out.append("/-- Rust type expressions as they occur in the fields of the `#[derive(SchemaRead, SchemaWrite)]` types -/")
    out.append("inductive RTy")
    out.append("  | path (name : String) (args : List RTy)")
    out.append("  | tuple (ts : List RTy)")
    out.append("  | boxedSlice (t : RTy)")
    out.append("")
    out.append("/-- one derive type: generic parameters; a struct has the single item `\"\"`, an enum its variants in")
    out.append("declaration order; each item lists its fields (name or position, type) in declaration order -/")
    out.append("structure RDef where")
    out.append("  name : String")
    out.append("  params : List String")
    out.append("  isEnum : Bool")
    out.append("  items : List (String × List (String × RTy))")
    out.append("")
    out.append("/-- the derive types reachable from " + " and ".join(WINCODE_ROOTS) + " (sources: " + ", ".join(sources) + ");")
    out.append("`#[cfg(test)]` fields are left out; any `#[wincode(..)]` attribute or inexpressible field type makes the extraction fail -/")
    out.append("def WINCODE_DEFS : List RDef := [")
    rows = []
    for name in reached:
        d = defs[name]
        items = ", ".join("(" + lean_str(vn) + ", [" + ", ".join("(" + lean_str(fn) + ", " + rty_lean(ft) + ")" for fn, ft in fs) + "])" for vn, fs in d["nitems"])
        rows.append("  { name := " + lean_str(name) + ", params := [" + ", ".join(lean_str(p) for p, _ in d["params"]) + "], isEnum := "
                    + ("true" if d["enum"] else "false") + ",\n    items := [" + items + "] }")
    out.append(",\n".join(rows))
    out.append("]")
    out.append("def WINCODE_ROOTS : List String := [" + ", ".join(lean_str(r) for r in WINCODE_ROOTS) + "]")
    others = sorted(n for n in defs if n not in reached)
    out.append("/-- derive types in the scanned files that grammar and table do not contain -/")
    out.append("def WINCODE_UNREACHED : List String := [" + ", ".join(lean_str(r) for r in others) + "]")
    # the configurations CTParserBuilder::build and the generated start-up code use per format
    ct = strip_rust_comments(src("lrpar/src/lib/ctbuilder.rs"))
    pairs = re.findall(r"SerialisationFormat::(\w+)\s*=>\s*\{[^{}]*?Configuration::default\(\)\s*\.\s*with_(\w+)_encoding\(\)", ct)
    ser = [(a, b) for a, b in pairs]
    if len(ser) < 4 or len(set(ser)) != 2:
        raise SchemaError("lrpar/src/lib/ctbuilder.rs: serialisation/reconstitution no longer pair each SerialisationFormat with "
                          f"one Configuration in both places (found {pairs})")
    out.append("/-- (format, integer encoding) as paired by `build` (serialisation) and by the generated start-up code -/")
    out.append("def SERIALISATION_CONFIGS : List (String × String) := [" + ", ".join("(" + lean_str(a) + ", " + lean_str(b) + ")" for a, b in sorted(set(ser))) + "]")
    out.append("")


# ---- C13: the wiring of the lexer code generator (CTLexerBuilder::build, the part that writes `lexerdef()`) ----
def _ws(t):
    return re.sub(r"\s+", " ", t).strip()


def _block_after(text, start_pat, what):
    """(body, index after the closing brace) of the `{…}` block whose opening brace ends the match of start_pat"""
    m = re.search(start_pat, text)
    if not m:
        raise SystemExit(f"extract: {what} not found in lrlex/src/lib/ctbuilder.rs")
    i = m.end() - 1
    try:
        j = matching(text, i, "{", "}")
    except Exception:
        raise SystemExit(f"extract: unbalanced braces after {what}")
    return text[i + 1:j], j + 1


def _pairs(name, ps, doc):
    return [f"/-- C13: {doc} -/",
            f"def {name} : List (String × String) := [" + ", ".join("(" + lean_str(a) + ", " + lean_str(b) + ")" for a, b in ps) + "]"]


def c13(out):
    lp, xp = "lrlex/src/lib/ctbuilder.rs", "lrlex/src/lib/lexer.rs"
    t = strip_rust_comments(src(lp))
    lx = strip_rust_comments(src(xp))
    flag_fields = [f for f, _ in struct_fields(lx, "LexFlags", xp)]
    # -- flags: destructuring, QuoteOption bindings, generated assignment lines
    body, after = _block_after(t, r"let mut lexerdef_func_impl = \{", "`let mut lexerdef_func_impl = {`")
    m = re.match(r"\s*let LexFlags \{(.*?)\} = lex_flags;(.*?)quote! \{(.*)\}\s*$", body, re.S)
    if not m:
        raise SystemExit("extract: the block computing `lexerdef_func_impl` no longer has the shape "
                         "`let LexFlags { … } = lex_flags; let … = QuoteOption(…); … quote! { … }`")
    env = {}
    for item in m.group(1).split(","):
        item = item.strip()
        if not item:
            continue
        mm = re.match(r"(\w+)\s*(?::\s*(\w+))?$", item)
        if not mm or mm.group(2) == "_":
            raise SystemExit(f"extract: the destructuring of LexFlags in CTLexerBuilder::build has the item {item!r} "
                             "(`..`, `_` or a nested pattern): a flag would not reach the generated lexer")
        var = mm.group(2) or mm.group(1)
        if var in env:
            raise SystemExit(f"extract: variable {var} bound twice in the destructuring of LexFlags")
        env[var] = (mm.group(1), False)
    if sorted(f for f, _ in env.values()) != sorted(flag_fields):
        raise SystemExit(f"extract: CTLexerBuilder::build destructures {sorted(f for f, _ in env.values())} but LexFlags has {sorted(flag_fields)}")
    for st in m.group(2).split(";"):
        st = _ws(st)
        if not st:
            continue
        mm = re.match(r"let (\w+) = QuoteOption\((\w+)\)$", st)
        if not mm:
            raise SystemExit(f"extract: unexpected statement before the lex_flags code generation: {st!r}")
        y, w = mm.groups()
        if w not in env or env[w][1]:
            raise SystemExit(f"extract: `{st}` quotes {w}, which is not an (unquoted) field of the destructured LexFlags")
        env[y] = (env[w][0], True)
    lines = [_ws(l) for l in m.group(3).split(";") if _ws(l)]
    if len(lines) < 2 or lines[0] != "let mut lex_flags = ::lrlex::DEFAULT_LEX_FLAGS" or lines[-1] != "let lex_flags = lex_flags":
        raise SystemExit("extract: the generated lex_flags block no longer starts with `let mut lex_flags = ::lrlex::DEFAULT_LEX_FLAGS;` "
                         "and ends with `let lex_flags = lex_flags;`")
    flag_wiring = []
    for l in lines[1:-1]:
        mm = re.match(r"lex_flags\.(\w+) = #(\w+)\.or\(::lrlex::DEFAULT_LEX_FLAGS\.(\w+)\)$", l)
        if not mm:
            raise SystemExit(f"extract: generated lex_flags line is not of the shape `lex_flags.X = #Y.or(::lrlex::DEFAULT_LEX_FLAGS.Z);`: {l!r}")
        x, y, z = mm.groups()
        if y not in env or not env[y][1]:
            raise SystemExit(f"extract: generated line `{l}` interpolates #{y}, which is not a QuoteOption of a LexFlags field")
        flag_wiring.append((x, env[y][0], z))
    # -- the block that generates the rules and the start states
    rest = t[after:]
    m = re.match(r"\s*;\s*\{", rest)
    if not m:
        raise SystemExit("extract: the block after `lexerdef_func_impl` (start states and rules) is not where it was")
    try:
        j = matching(rest, m.end() - 1, "{", "}")
    except Exception:
        raise SystemExit("extract: unbalanced braces in the rules block")
    blk, tail = rest[m.end():j], rest[j + 1:]
    m = re.match(r"\s*let start_states = ([^;]*);\s*let rules = (.*?)\.map\(\|r\| \{", blk, re.S)
    if not m:
        raise SystemExit("extract: the rules block no longer starts `let start_states = …; let rules = ….map(|r| {`")
    states_iter = _ws(m.group(1))
    try:
        k = matching(blk, m.end() - 1, "{", "}")
    except Exception:
        raise SystemExit("extract: unbalanced braces in the per-rule closure")
    closure = blk[m.end():k]
    mm = re.match(r"\)([^;]*);(.*)$", blk[k + 1:], re.S)
    if not mm:
        raise SystemExit("extract: the per-rule closure is not closed by `});`")
    rules_iter = _ws(m.group(2)) + _ws(mm.group(1))
    if _ws(mm.group(2)) != "lexerdef_func_impl.append_all(quote! { let start_states: Vec<StartState> = vec![#(#start_states),*]; let rules = vec![#(#rules),*]; });":
        raise SystemExit("extract: the statement generating `let start_states … = vec![…]; let rules = vec![…];` changed shape "
                         "(something between the iterators and the generated vectors?): " + _ws(mm.group(2))[:200])
    mt = re.match(r"\s*let lexerdef_ty = match lexerkind \{.*?\};\s*lexerdef_func_impl\.append_all\(quote! \{\s*#lexerdef_ty::from_rules\(start_states, rules\)\s*\}\);", tail, re.S)
    if not mt:
        raise SystemExit("extract: the generated return value is no longer `#lexerdef_ty::from_rules(start_states, rules)`")
    # -- per rule: let bindings and the generated call
    mq = re.match(r"(.*?)quote! \{\s*Rule::new\((.*)\)\.unwrap\(\)\s*\}\s*$", closure, re.S)
    if not mq:
        raise SystemExit("extract: the per-rule closure no longer ends in `quote! { Rule::new(…).unwrap() }`")
    renv = {}
    shape = re.compile(r"^(?:Quote(?:Option|ToString)\()*&?r\.(\w+)(\(\))?(?:\.map\((?:QuoteToString|\|\(x, y\)\| QuoteTuple\(\(x, y\)\))\))?\)*$")
    for st in mq.group(1).split(";"):
        st = _ws(st)
        if not st:
            continue
        ml = re.match(r"let (\w+) = (.*)$", st)
        ms = shape.match(ml.group(2)) if ml else None
        if not ms or ml.group(2).count("(") != ml.group(2).count(")"):
            raise SystemExit(f"extract: statement of the per-rule closure is not `let V = <quoting of r.ACCESSOR>`: {st!r}")
        if ml.group(1) in renv:
            raise SystemExit(f"extract: per-rule variable {ml.group(1)} bound twice")
        renv[ml.group(1)] = ms.group(1) + (ms.group(2) or "")
    args = [_ws(a) for a in split_top(mq.group(2))]
    # parameters of Rule::new and its struct literal
    mn = re.search(r"pub fn new\((.*?)\)\s*->\s*Result<Rule<StorageT>, regex::Error>\s*\{(.*?)\n    \}\n", lx, re.S)
    if not mn:
        raise SystemExit("extract: `Rule::new(…) -> Result<Rule<StorageT>, regex::Error>` not found in lexer.rs")
    params = []
    for prm in split_top(mn.group(1)):
        mp = re.match(r"\s*(\w+)\s*:", prm)
        if not mp:
            raise SystemExit(f"extract: cannot read a parameter of Rule::new: {prm!r}")
        params.append(mp.group(1))
    if len(params) != len(args):
        raise SystemExit(f"extract: generated Rule::new call has {len(args)} arguments, Rule::new has {len(params)} parameters")
    rule_wiring = []
    for prm, a in zip(params, args):
        if prm == "_":
            if a != "::lrlex::unstable_api::InternalPublicApi":
                raise SystemExit(f"extract: first argument of the generated Rule::new is {a!r}")
            continue
        if prm == "lex_flags":
            if a != "&lex_flags":
                raise SystemExit(f"extract: the lex_flags argument of the generated Rule::new is {a!r}, not the generated local `&lex_flags`")
            rule_wiring.append((prm, "&lex_flags"))
            continue
        ma = re.match(r"(?:#(\w+)|vec!\[#\(#(\w+)\),\*\])$", a)
        if not ma:
            raise SystemExit(f"extract: argument {a!r} of the generated Rule::new (parameter {prm}) is not `#var` or `vec![#(#var),*]`")
        v = ma.group(1) or ma.group(2)
        if v not in renv:
            raise SystemExit(f"extract: argument {a!r} of the generated Rule::new interpolates a variable not bound from the run-time rule `r`")
        rule_wiring.append((prm, renv[v]))
    ml = re.search(r"Ok\(Rule \{(.*?)\}\)", mn.group(2), re.S)
    if not ml:
        raise SystemExit("extract: Rule::new no longer ends in the struct literal `Ok(Rule { … })`")
    stores, derived = [], []
    for item in split_top(ml.group(1)):
        item = _ws(item)
        if not item:
            continue
        mi = re.match(r"(\w+)(?:\s*:\s*(\w+))?$", item)
        if not mi:
            raise SystemExit(f"extract: field initialiser {item!r} of Rule::new's struct literal is not `field` or `field: ident`")
        f, v = mi.group(1), mi.group(2) or mi.group(1)
        if v in params:
            stores.append((v, f))
        else:
            derived.append(f)
    rule_fields = [f for f, _ in struct_fields(lx, "Rule", xp)]
    # accessors of Rule: `pub fn A(&self) -> … { … self.F… }`
    mi = re.search(r"impl<StorageT: PrimInt> Rule<StorageT> \{", lx)
    if not mi:
        raise SystemExit("extract: `impl<StorageT: PrimInt> Rule<StorageT>` not found")
    impl = lx[mi.end():matching(lx, mi.end() - 1, "{", "}")]
    accessors = []
    for ma in re.finditer(r"pub fn (\w+)\(&self\)[^{]*\{([^{}]*)\}", impl):
        reads = sorted(set(re.findall(r"\bself\.(\w+)\b", ma.group(2))))
        if len(reads) != 1:
            raise SystemExit(f"extract: accessor Rule::{ma.group(1)} reads {reads}, not exactly one field")
        if not re.match(r"\s*(?:#\[allow\(deprecated\)\]\s*)?&?self\.\w+(?:\.as_deref\(\)|\.as_slice\(\)|\.clone\(\))?\s*$", ma.group(2)):
            raise SystemExit(f"extract: accessor Rule::{ma.group(1)} does more than hand out a field: {_ws(ma.group(2))!r}")
        accessors.append((ma.group(1) + "()", reads[0]))
    out.append("/-- C13: fields of `struct LexFlags` (lrlex/src/lib/lexer.rs), in order -/")
    out.append("def C13_LEXFLAGS_FIELDS : List String := [" + ", ".join(lean_str(f) for f in flag_fields) + "]")
    out.append("/-- C13: for every generated line `lex_flags.X = #Y.or(::lrlex::DEFAULT_LEX_FLAGS.Z)`: (X, LexFlags field that Y was bound from, Z) -/")
    out.append("def C13_FLAG_WIRING : List (String × String × String) := [" + ", ".join("(" + ", ".join(lean_str(a) for a in w) + ")" for w in flag_wiring) + "]")
    out.extend(_pairs("C13_RULE_WIRING", rule_wiring, "for every parameter of `Rule::new` but the API marker: (parameter, accessor/field of the run-time rule the generated argument is computed from)"))
    out.extend(_pairs("C13_RULE_NEW_STORES", stores, "(parameter of `Rule::new`, field of `Rule` it is stored in)"))
    out.extend(_pairs("C13_RULE_ACCESSORS", accessors, "(accessor of `Rule`, the one field it hands out)"))
    out.append("/-- C13: fields of `struct Rule`; those that `Rule::new` computes itself (from the regex text and the flags) -/")
    out.append("def C13_RULE_FIELDS : List String := [" + ", ".join(lean_str(f) for f in rule_fields) + "]")
    out.append("def C13_RULE_DERIVED_FIELDS : List String := [" + ", ".join(lean_str(f) for f in derived) + "]")
    out.append("/-- C13: the expressions the generated rules / start states are taken from (white space normalised; the `.map(|r| {…})` that quotes one rule is cut out) -/")
    out.append("def C13_RULES_ITER : String := " + lean_str(rules_iter))
    out.append("def C13_STATES_ITER : String := " + lean_str(states_iter))
    out.append("")


def section(prop, fn, old_text, failures):
    """Run one property's extractor. Its output is framed by markers; when it fails (the source no
    longer has the expected shape) the previous block is kept, so that the Lean library still builds
    for the OTHER properties, and the failure is reported for `prop` only."""
    begin, end = f"-- BEGIN {prop}", f"-- END {prop}"
    try:
        block = []
        r = fn(block)
        if isinstance(r, list) and not block:
            block = r
        return [begin] + block + [end, ""]
    except SystemExit as e:
        failures[prop] = str(e)
        m = re.search(re.escape(begin) + r"\n(.*?)" + re.escape(end), old_text or "", re.S)
        return [begin] + (m.group(1).rstrip("\n").split("\n") if m else []) + [end, ""]


def main():
    old = open(OUT).read() if os.path.exists(OUT) else None
    failures = {}
    out = ["/-! GENERATED by tools/extract.py from /repo on every run. Do not edit. -/", "namespace GrmVerif.Extracted", ""]

    def base(block):
        cp = src("lrpar/src/lib/cpctplus.rs")
        block.append(f"def PARSE_AT_LEAST : Nat := {const(cp, 'PARSE_AT_LEAST', 'cpctplus.rs')}")
        block.append(f"def TRY_PARSE_AT_MOST : Nat := {const(cp, 'TRY_PARSE_AT_MOST', 'cpctplus.rs')}")
        st = src("lrtable/src/lib/statetable.rs")
        for n in ("SHIFT", "REDUCE", "ACCEPT", "ERROR"):
            block.append(f"def {n} : Nat := {const(st, n, 'statetable.rs')}")

    out += section("BASE", base, old, failures)
    out += section("C10", c10, old, failures)
    out += section("C11", c11, old, failures)
    out += section("C18", c18, old, failures)
    out += section("C20", lambda b: c20_guards(), old, failures)
    unaudited = []

    def c15w(block):
        unaudited.extend(c15(block) or [])

    out += section("C15", c15w, old, failures)
    out += section("C14", c14, old, failures)
    out += section("C13", c13, old, failures)
    out += ["end GrmVerif.Extracted", ""]
    new = "\n".join(out)
    if old != new:
        open(OUT, "w").write(new)
    if unaudited:
        failures["C15"] = ("C15: iteration over a randomly seeded HashMap/HashSet, or a `static` item, that is not in the audited lists "
                           "(tools/propcfg/C15.py AUDIT / AUDIT_STATICS) - classify it (order-irrelevant / order-relevant; immutable / shared state) and model it: "
                           + "; ".join(" | ".join(u) for u in unaudited[:4]))
    # a failed extractor is a broken tie for ITS property (and for every property when BASE fails)
    want = sys.argv[1] if len(sys.argv) > 1 else None
    for k, v in failures.items():
        if want is None or k == want or k == "BASE":
            raise SystemExit(f"extract [{k}]: {v}")


if __name__ == "__main__":
    main()
