#!/usr/bin/env python3
"""Translator for the mechanically translatable parts of /repo: named constants, tables and field
lists that the Lean models depend on.  Regenerates lean/GrmVerif/Extracted.lean on every run; exits
non-zero when the source no longer has the expected shape (a broken tie)."""
import os, re, sys

VERIF = os.path.dirname(os.path.dirname(os.path.abspath(__file__)))
_m = re.search(r'cfgrammar\s*=\s*\{\s*path\s*=\s*"([^"]+)/cfgrammar"', open(os.path.join(VERIF, "harness", "Cargo.toml")).read())
REPO = _m.group(1) if _m else "/repo"
OUT = os.path.join(os.path.dirname(os.path.dirname(os.path.abspath(__file__))), "lean", "GrmVerif", "Extracted.lean")


def src(p):
    return open(os.path.join(REPO, p), encoding="utf-8").read()


def const(text, name, path):
    m = re.search(r"const\s+%s\s*:\s*[A-Za-z0-9_<>]+\s*=\s*([0-9_]+)\s*;" % re.escape(name), text)
    if not m:
        raise SystemExit(f"extract: constant {name} not found in {path}")
    return int(m.group(1).replace("_", ""))


# ---- C11: tables of the lex escape scanner (lrlex/src/lib/parser.rs, regex-syntax) -----------------
POSIX_CLASSES = {"xdigit": [(48, 57), (65, 70), (97, 102)], "digit": [(48, 57)]}


def regex_static(text, name, path):
    """the pattern string of `static NAME: LazyLock<Regex> = LazyLock::new(|| { Regex::new(r"...") ..`"""
    m = re.search(r'static\s+%s\s*:\s*LazyLock<Regex>\s*=\s*LazyLock::new\(\|\|\s*\{?\s*Regex::new\(r(#?)"(.*?)"\1\)' % re.escape(name), text, re.S)
    if not m:
        raise SystemExit(f"extract: regex {name} not found in {path}")
    return m.group(2)


def parse_class(body, name):
    """items of a bracket class (without the brackets) -> list of inclusive code point ranges"""
    out, i = [], 0
    while i < len(body):
        if body.startswith("[:", i):
            j = body.index(":]", i)
            cls = body[i + 2:j]
            if cls not in POSIX_CLASSES:
                raise SystemExit(f"extract: {name}: unsupported POSIX class {cls}")
            out += POSIX_CLASSES[cls]
            i = j + 2
            continue
        if body[i] == "\\":
            c = body[i + 1]
            if c.isalnum():
                raise SystemExit(f"extract: {name}: unsupported escape \\{c} in class")
            i += 2
        else:
            c = body[i]
            i += 1
        if i + 1 < len(body) and body[i] == "-" and body[i + 1] != "]":
            hi = body[i + 1]
            out.append((ord(c), ord(hi)))
            i += 2
        else:
            out.append((ord(c), ord(c)))
    return out


def parse_esc_literal(pat, name):
    """`^(alt|alt|..)`, every alt a sequence of bracket classes (optionally parenthesised)
    -> list of alternatives, each a list of classes, each a list of ranges"""
    if not (pat.startswith("^(") and pat.endswith(")")):
        raise SystemExit(f"extract: {name} no longer has the shape ^(..|..)")
    body = pat[2:-1]
    alts, depth, cur, i, inclass = [], 0, "", 0, False
    while i < len(body):
        ch = body[i]
        if ch == "\\":
            cur += body[i:i + 2]; i += 2; continue
        if inclass:
            if body.startswith("[:", i):
                j = body.index(":]", i); cur += body[i:j + 2]; i = j + 2; continue
            if ch == "]":
                inclass = False
        elif ch == "[":
            inclass = True
        elif ch == "(":
            depth += 1
        elif ch == ")":
            depth -= 1
        elif ch == "|" and depth == 0:
            alts.append(cur); cur = ""; i += 1; continue
        cur += ch; i += 1
    alts.append(cur)
    res = []
    for a in alts:
        while a.startswith("(") and a.endswith(")"):
            a = a[1:-1]
        seq, i = [], 0
        while i < len(a):
            if a[i] != "[":
                raise SystemExit(f"extract: {name}: alternative {a!r} is not a sequence of classes")
            j, k = i + 1, i + 1
            while True:
                if a.startswith("[:", k):
                    k = a.index(":]", k) + 2
                elif a[k] == "\\":
                    k += 2
                elif a[k] == "]":
                    break
                else:
                    k += 1
            seq.append(parse_class(a[j:k], name))
            i = k + 1
        res.append(seq)
    return res


def rust_str(lit):
    """value of a (non-raw) Rust string literal body with only \\\\ \\" \\n \\t escapes"""
    out, i = "", 0
    while i < len(lit):
        if lit[i] == "\\":
            c = lit[i + 1]
            out += {"\\": "\\", '"': '"', "n": "\n", "t": "\t"}.get(c) or (_ for _ in ()).throw(SystemExit(f"extract: escape \\{c}"))
            i += 2
        else:
            out += lit[i]; i += 1
    return out


def regex_syntax_src():
    """src/lib.rs of the regex-syntax version that Cargo.lock pins"""
    import glob
    lock = None
    for cand in (os.path.join(REPO, "Cargo.lock"), os.path.join(VERIF, "harness", "Cargo.lock"), "/repo/Cargo.lock"):
        if os.path.exists(cand):
            lock = open(cand).read(); break
    if lock is None:
        raise SystemExit("extract: no Cargo.lock to find the regex-syntax version")
    m = re.search(r'name = "regex-syntax"\nversion = "([^"]+)"', lock)
    if not m:
        raise SystemExit("extract: regex-syntax not in Cargo.lock")
    home = os.environ.get("CARGO_HOME", os.path.expanduser("~/.cargo"))
    hits = glob.glob(os.path.join(home, "registry", "src", "*", "regex-syntax-" + m.group(1), "src", "lib.rs"))
    if not hits:
        raise SystemExit(f"extract: regex-syntax-{m.group(1)} sources not found under {home}")
    return open(hits[0], encoding="utf-8").read(), m.group(1)


def lean_str(s):
    return '"' + s.replace("\\", "\\\\").replace('"', '\\"') + '"'


def c11(out):
    lp = src("lrlex/src/lib/parser.rs")
    esc = regex_static(lp, "RE_LEX_ESC_LITERAL", "parser.rs")
    alts = parse_esc_literal(esc, "RE_LEX_ESC_LITERAL")
    out.append("/-- `RE_LEX_ESC_LITERAL` of lrlex/src/lib/parser.rs (anchored at the start of the text): alternatives,")
    out.append("each a sequence of character classes, each a list of inclusive code-point ranges -/")
    out.append("def RE_LEX_ESC_LITERAL : List (List (List (Nat × Nat))) := [" + ", ".join(
        "[" + ", ".join("[" + ", ".join(f"({a}, {b})" for a, b in cls) + "]" for cls in seq) + "]" for seq in alts) + "]")
    out.append(f"def RE_LEX_ESC_LITERAL_SRC : String := {lean_str(esc)}")
    rs, ver = regex_syntax_src()
    m = re.search(r"pub fn is_meta_character\(c: char\) -> bool \{\s*match c \{(.*?)=> true,\s*_ => false,", rs, re.S)
    if not m:
        raise SystemExit("extract: regex_syntax::is_meta_character no longer has the expected shape")
    metas = re.findall(r"'(\\.|[^'\\])'", m.group(1))
    if not metas or re.sub(r"'(\\.|[^'\\])'|[\s|]", "", m.group(1)):
        raise SystemExit("extract: unexpected pattern in is_meta_character")
    cps = [ord(x[1]) if x.startswith("\\") else ord(x) for x in metas]
    out.append(f"/-- `regex_syntax::is_meta_character` (regex-syntax {ver}, the version pinned by Cargo.lock) -/")
    out.append("def META_CHARACTERS : List Nat := [" + ", ".join(map(str, cps)) + "]")
    m = re.search(r'if c == \'b\' \{.*?if let Some\(true\) = lex_flags\.posix_escapes \{\s*"((?:[^"\\]|\\.)*)"\s*\}\s*else\s*\{\s*"((?:[^"\\]|\\.)*)"', lp, re.S)
    if not m:
        raise SystemExit("extract: the `\\b` arm of unescape no longer has the expected shape")
    out.append("/-- what the `b` arm of `unescape` pushes with / without `posix_escapes` -/")
    out.append("def B_POSIX : List Nat := [" + ", ".join(str(ord(c)) for c in rust_str(m.group(1))) + "]")
    out.append("def B_PLAIN : List Nat := [" + ", ".join(str(ord(c)) for c in rust_str(m.group(2))) + "]")
    for n in ("RE_START_STATE_NAME", "RE_INCLUSIVE_START_STATE_DECLARATION", "RE_EXCLUSIVE_START_STATE_DECLARATION",
              "RE_LINE_SEP", "RE_SPACE_SEP", "RE_WS"):
        out.append(f"def {n}_SRC : String := {lean_str(regex_static(lp, n, 'parser.rs'))}")
    m = re.search(r'const INITIAL_START_STATE_NAME: &str = "([^"]*)";', lp)
    if not m:
        raise SystemExit("extract: INITIAL_START_STATE_NAME not found")
    out.append(f"def INITIAL_START_STATE_NAME : String := {lean_str(m.group(1))}")
    lx = src("lrlex/src/lib/lexer.rs")
    m = re.search(r"pub struct LexFlags \{(.*?)\n\}", lx, re.S)
    if not m:
        raise SystemExit("extract: struct LexFlags not found")
    fields = re.findall(r"pub (\w+): Option<(\w+)>", m.group(1))
    bools = [f for f, t in fields if t == "bool"]
    out.append("/-- the boolean fields of `LexFlags`, in declaration order -/")
    out.append("def LEX_FLAG_NAMES : List String := [" + ", ".join(lean_str(f) for f in bools) + "]")
    m = re.search(r"pub const DEFAULT_LEX_FLAGS: LexFlags = LexFlags \{(.*?)\};", lx, re.S)
    if not m:
        raise SystemExit("extract: DEFAULT_LEX_FLAGS not found")
    dv = dict(re.findall(r"(\w+): (Some\(\w+\)|None)", m.group(1)))
    vals = []
    for f in bools:
        v = dv.get(f)
        if v not in ("Some(true)", "Some(false)", "None"):
            raise SystemExit(f"extract: DEFAULT_LEX_FLAGS.{f} = {v}")
        vals.append({"Some(true)": "some true", "Some(false)": "some false", "None": "none"}[v])
    out.append("/-- `DEFAULT_LEX_FLAGS`, boolean fields, same order -/")
    out.append("def DEFAULT_LEX_FLAGS : List (Option Bool) := [" + ", ".join(vals) + "]")
    out.append("")


def c20_guards():
    """C20: the condition of each `if … { panic!("StorageT is not big enough …") }` in
    new_from_ast_with_validity_info, pager.rs and the two state-count `assert!`s, as text with
    whitespace removed.  Never fails: the C20 driver (Drive/C20.lean, request `2`) compares the list
    with the shapes Model/Width.lean transcribes, so a changed guard breaks only C20's tie."""
    items = []
    g = src("cfgrammar/src/lib/yacc/grammar.rs")
    for m in re.finditer(r"if\s+([^{}]*?)\s*\{\s*panic!\(\s*\"StorageT is not big enough to store ([^\"]*?)\.?\"", g):
        items.append(("grammar:" + m.group(2).strip(), re.sub(r"\s+", "", m.group(1))))
    pg = src("lrtable/src/lib/pager.rs")
    for m in re.finditer(r"if\s+([^{}]*?)\s*\{\s*panic!\(\s*\"StorageT is not big enough to store ([^\"]*?)\.?\"", pg):
        items.append(("pager:" + m.group(2).strip(), re.sub(r"\s+", "", m.group(1))))
    for path, tag in (("lrtable/src/lib/stategraph.rs", "stategraph"), ("lrtable/src/lib/statetable.rs", "statetable")):
        for m in re.finditer(r"assert!\(([^;]*?max_value\(\)[^;]*?)\);", src(path)):
            items.append((tag + ":assert", re.sub(r"\s+", "", m.group(1))))
    lx = src("lrlex/src/lib/parser.rs")
    for m in re.finditer(r"let\s+tok_id\s*=\s*([A-Za-z0-9_:]+::try_from\([a-z_]+\))", lx):
        items.append(("lexer:tok_id", re.sub(r"\s+", "", m.group(1))))
    esc = lambda t: t.replace("\\", "\\\\").replace('"', '\\"')
    body = ",\n   ".join('("%s", "%s")' % (esc(a), esc(b)) for a, b in items)
    return ["", "/-- C20: the width guards' conditions as written in the source (whitespace removed) -/",
            "def C20_GUARDS : List (String × String) :=\n  [" + body + "]"]


# ---- C18: which builder fields enter the rebuild cache (lrpar/lrlex ctbuilder.rs) --------------------
def struct_fields(text, name, path):
    """[(field, cfg_test)] of `pub struct NAME<…> where … { … }` (top-level fields only)"""
    m = re.search(r"pub struct %s\b[^{;]*\{" % re.escape(name), text)
    if not m:
        raise SystemExit(f"extract: struct {name} not found in {path}")
    i, depth, body = m.end(), 1, []
    while depth and i < len(text):
        ch = text[i]
        depth += ch == "{"
        depth -= ch == "}"
        body.append(ch)
        i += 1
    body = re.sub(r"//[^\n]*", "", "".join(body[:-1]))
    fields, angle, paren, cur = [], 0, 0, ""
    for ch in body:                      # split at top-level commas
        if ch in "<": angle += 1
        if ch in ">" and angle and not cur.endswith("-"): angle -= 1
        if ch in "([{": paren += 1
        if ch in ")]}": paren -= 1
        if ch == "," and angle == 0 and paren == 0:
            fields.append(cur); cur = ""
        else:
            cur += ch
    fields.append(cur)
    out = []
    for f in fields:
        f = f.strip()
        if not f:
            continue
        cfg_test = "#[cfg(test)]" in f
        f = re.sub(r"#\[[^\]]*\]", "", f).strip()
        mm = re.match(r"(?:pub(?:\([^)]*\))?\s+)?(\w+)\s*:", f)
        if not mm:
            raise SystemExit(f"extract: cannot read a field of {name} in {path}: {f[:60]!r}")
        out.append((mm.group(1), cfg_test))
    return out


def c18(out):
    sys.path.insert(0, os.path.join(VERIF, "tools"))
    from propcfg.C18 import PARSER_FIELDS_NOT_IN_CACHE, LEXER_FIELDS_AUDITED
    pp = "lrpar/src/lib/ctbuilder.rs"
    t = src(pp)
    fields = [f for f, _ in struct_fields(t, "CTParserBuilder", pp)]
    m = re.search(r"fn rebuild_cache\(.*?let Self \{(.*?)\} = self;(.*?)\n    \}\n", t, re.S)
    if not m:
        raise SystemExit("extract: rebuild_cache no longer has the shape `let Self { … } = self;`")
    pat = re.sub(r"//[^\n]*", "", m.group(1))
    pat = re.sub(r"#\[[^\]]*\]", "", pat)
    if ".." in pat:
        raise SystemExit("extract: rebuild_cache destructures `Self` with `..`: new fields would bypass the cache silently")
    bound, ignored = [], []
    for item in pat.split(","):
        item = item.strip()
        if not item:
            continue
        mm = re.match(r"(\w+)\s*(?::\s*(\w+))?$", item)
        if not mm:
            raise SystemExit(f"extract: unexpected pattern item in rebuild_cache: {item!r}")
        (ignored if mm.group(2) == "_" else bound).append(mm.group(1))
    if sorted(bound + ignored) != sorted(fields):
        raise SystemExit(f"extract: rebuild_cache destructures {sorted(bound + ignored)} but CTParserBuilder has {sorted(fields)}")
    q = re.search(r"let cache_info = quote! \{(.*?)\};", m.group(2), re.S)
    if not q:
        raise SystemExit("extract: `cache_info = quote! {…}` not found in rebuild_cache")
    for f in bound:
        if not re.search(r"#%s\b" % f, q.group(1)):
            raise SystemExit(f"extract: builder field {f} is bound in rebuild_cache but not written into the cache string")
    new = sorted(set(ignored) - set(PARSER_FIELDS_NOT_IN_CACHE))
    if new:
        raise SystemExit(f"extract: CTParserBuilder field(s) {new} are neither in the cache string nor in the audited "
                         "exclusion list (tools/propcfg/C18.py PARSER_FIELDS_NOT_IN_CACHE)")
    gone = sorted(set(PARSER_FIELDS_NOT_IN_CACHE) - set(ignored))
    if gone:
        raise SystemExit(f"extract: audited exclusion list names {gone}, which rebuild_cache no longer ignores: re-audit")
    if not re.search(r"FileTime::from_last_modification_time\(out_rs_md\)\s*>\s*FileTime::from_last_modification_time\(inmd\)", t):
        raise SystemExit("extract: the up-to-date test `mtime(out) > mtime(in)` of CTParserBuilder::build changed shape")
    if "outc.contains(&cache.to_string())" not in t:
        raise SystemExit("extract: the cache comparison `outc.contains(&cache.to_string())` changed shape")
    lp = "lrlex/src/lib/ctbuilder.rs"
    tl = src(lp)
    lfields = [f for f, _ in struct_fields(tl, "CTLexerBuilder", lp)]
    new = sorted(set(lfields) - set(LEXER_FIELDS_AUDITED))
    if new:
        raise SystemExit(f"extract: CTLexerBuilder field(s) {new} are not in the audited list (tools/propcfg/C18.py LEXER_FIELDS_AUDITED)")
    gone = sorted(set(LEXER_FIELDS_AUDITED) - set(lfields))
    if gone:
        raise SystemExit(f"extract: audited CTLexerBuilder field(s) {gone} no longer exist: re-audit")
    if not re.search(r"if let Ok\(curs\) = read_to_string\(outp\)\s*&& curs == outs", tl):
        raise SystemExit("extract: CTLexerBuilder::build no longer compares the generated text with the existing file")
    if re.search(r"from_last_modification_time|fs::metadata", tl):
        raise SystemExit("extract: CTLexerBuilder now looks at file metadata: the lexer side of Model/Build.lean has no mtime test")
    out.append("/-- C18: fields of `CTParserBuilder` written into the rebuild cache string / audited as not needed there -/")
    out.append("def C18_PARSER_CACHE_FIELDS : List String := [" + ", ".join(lean_str(f) for f in bound) + "]")
    out.append("def C18_PARSER_EXCLUDED_FIELDS : List String := [" + ", ".join(lean_str(f) for f in ignored) + "]")
    out.append("/-- C18: fields of `CTLexerBuilder` (no cache: the generated text is compared with the file) -/")
    out.append("def C18_LEXER_FIELDS : List String := [" + ", ".join(lean_str(f) for f in lfields) + "]")
    out.append("/-- C18: the parser builder's up-to-date test is the strict `mtime(out) > mtime(grammar)` -/")
    out.append("def C18_MTIME_STRICT : Bool := true")
    out.append("")


# ---- C15: every iteration over a randomly seeded std HashMap/HashSet in the build pipeline ----------
C15_FILES = ["cfgrammar/src/lib/yacc/ast.rs", "cfgrammar/src/lib/yacc/grammar.rs", "cfgrammar/src/lib/yacc/parser.rs",
             "cfgrammar/src/lib/yacc/firsts.rs", "cfgrammar/src/lib/yacc/follows.rs", "cfgrammar/src/lib/header.rs",
             "lrtable/src/lib/pager.rs", "lrtable/src/lib/itemset.rs", "lrtable/src/lib/statetable.rs",
             "lrtable/src/lib/stategraph.rs", "lrtable/src/lib/mod.rs",
             "lrpar/src/lib/ctbuilder.rs", "lrpar/src/lib/cpctplus.rs", "lrpar/src/lib/parser.rs",
             "lrpar/src/lib/dijkstra.rs", "lrpar/src/lib/mf.rs", "lrpar/src/lib/lex_api.rs",
             "lrlex/src/lib/ctbuilder.rs", "lrlex/src/lib/lexer.rs", "lrlex/src/lib/parser.rs"]
_ITER = r"\.(?:iter|iter_mut|keys|values|values_mut|into_iter|into_keys|into_values|drain)\((?:\.\.)?\)"


def c15_sites():
    """(file, enclosing fn, normalised source line) of every place where something that is (or contains) a std
    `HashMap`/`HashSet` with the default `RandomState` hasher is iterated, in non-test code. Names are
    collected per file from declarations (`name: ..HashMap<`, `let [mut] name = HashSet::new()`,
    `let [mut] name: ..HashMap`, `fn name(..) -> ..HashMap<`) plus the cross-file accessors below."""
    sites = []
    texts = {}
    for path in C15_FILES:
        try:
            texts[path] = src(path)
        except OSError:
            continue
    fields = set()
    for text in texts.values():
        # struct fields / parameters of hash type are visible from other files (`ast.implicit_tokens`, ...)
        for m in re.finditer(r"\bpub\s+(\w+)\s*:\s*(?:Option<\s*)?Hash(?:Map|Set)\s*<(?![^;\n]*BuildHasherDefault)", text):
            fields.add(m.group(1))
    for path, text in texts.items():
        cut = re.search(r"\n#\[cfg\(test\)\]\s*\n(?:pub(?:\([^)]*\))?\s+)?mod tests?\b", text)
        if cut:
            text = text[:cut.start()]
        text = re.sub(r"//[^\n]*", "", text)
        names = set()
        for m in re.finditer(r"\b(\w+)\s*:\s*[^;=\n{]*?\bHash(?:Map|Set)\s*<", text):
            names.add(m.group(1))
        for m in re.finditer(r"\blet\s+(?:mut\s+)?(\w+)\s*(?::[^=;]*)?=\s*[^;]*?\bHash(?:Map|Set)\b", text):
            names.add(m.group(1))
        for m in re.finditer(r"\bfn\s+(\w+)\s*(?:<[^>]*>)?\s*\([^)]*\)\s*->\s*[^{;]*?\bHash(?:Map|Set)\s*<", text):
            names.add(m.group(1) + "()")
        # maps reached through accessors / closure parameters defined in another file
        names |= {"edges()", "tokens_map()", "token_map()", "rule_ids_map", "owned_map", "edges", "gc_edges"} | fields
        # a custom, unseeded hasher is not a random order: Itemset.items uses BuildHasherDefault<FnvHasher>
        det = set(re.findall(r"\b(\w+)\s*:\s*HashMap<[^;]*BuildHasherDefault", text))
        det |= set(re.findall(r"\blet\s+(?:mut\s+)?(\w+)\s*:\s*HashSet<[^;=]*BuildHasherDefault", text, re.S))
        names -= det
        names.discard("self")
        # aliases: `if let Some(a) = &x.name`, `let a = &x.name;`, `for a in name`, `for (i, a) in name.drain(..).enumerate()`
        for _ in range(4):
            plain = [re.escape(n) for n in names if not n.endswith("()")]
            alt = "(?:" + "|".join(plain) + ")"
            new = set()
            for m in re.finditer(r"\b(?:if|while)\s+let\s+Some\(\s*(?:ref\s+)?(?:mut\s+)?(\w+)\s*\)\s*=\s*&?(?:mut\s+)?(?:\w+\.)*" + alt + r"(?:\s*\.\s*(?:as_ref|as_mut)\(\))?\s*[{&]", text):
                new.add(m.group(1))
            for m in re.finditer(r"\bfor\s+(\w+)\s+in\s+&?(?:mut\s+)?(?:\w+\.)*" + alt + r"\s*\{", text):
                new.add(m.group(1))
            for m in re.finditer(r"\bfor\s+\(\s*\w+\s*,\s*(\w+)\s*\)\s+in\s+(?:\w+\.)*" + alt + r"\s*\.\s*(?:drain\(\.\.\)|iter\(\)|into_iter\(\))\s*\.\s*enumerate\(\)", text):
                new.add(m.group(1))
            new -= det
            if new <= names:
                break
            names |= new
        fn = "?"
        stmts = []
        # statements: join lines until ';' or '{' so that method chains split over lines are seen whole
        buf, bfn = "", "?"
        for line in text.split("\n"):
            m = re.match(r"\s*(?:pub(?:\([^)]*\))?\s+)?(?:const\s+)?(?:unsafe\s+)?fn\s+(\w+)", line)
            if m:
                fn = m.group(1)
            if not buf:
                bfn = fn
            buf += " " + line.strip()
            if line.rstrip().endswith((";", "{", "}", ",")) and buf.count("(") <= buf.count(")"):
                stmts.append((bfn, buf.strip()))
                buf = ""
        if buf.strip():
            stmts.append((bfn, buf.strip()))
        for fn, st in stmts:
            hit = False
            for n in names:
                base = re.escape(n[:-2]) + r"\([^()]*\)" if n.endswith("()") else r"\b" + re.escape(n) + r"\b"
                tail = r"(?:\s*\[[^\]]*\])?(?:\s*\.\s*(?:as_ref|as_mut|unwrap|borrow|clone|lock|expect)\([^()]*\))*"
                if re.search(base + tail + r"\s*" + _ITER, st):
                    hit = True
                if re.search(r"\bfor\b[^;{]*\bin\s+&?(?:mut\s+)?(?:\w+\.)*" + base + tail + r"\s*\{", st):
                    hit = True
                if re.search(r"\.extend\(\s*&?(?:\w+\.)*" + base + tail + r"\s*\)", st):
                    hit = True
            if hit:
                sites.append((path, fn, re.sub(r"\s+", " ", st)[:160]))
    return sites


def c15(out):
    """cross-check with the audited list (tools/propcfg/C15.py AUDIT): a site that was never classified
    breaks the tie for C15 (and is reported by every check, since the extraction is shared)."""
    sys.path.insert(0, os.path.dirname(os.path.abspath(__file__)))
    try:
        from propcfg.C15 import AUDIT
    except ImportError:
        return
    sites = c15_sites()
    known = {(a["file"], a["fn"], a["code"]) for a in AUDIT}
    wd = os.path.join(VERIF, "work")
    os.makedirs(wd, exist_ok=True)
    with open(os.path.join(wd, "hash_iteration_sites.txt"), "w") as f:
        for s in sites:
            f.write(("audited    " if s in known else "UNAUDITED  ") + " | ".join(s) + "\n")
    new = [s for s in sites if s not in known]
    out.append(f"/-- C15: number of iteration sites over randomly seeded hash collections found in /repo (all audited) -/")
    out.append(f"def C15_HASH_ITERATION_SITES : Nat := {len(sites)}")
    out.append("")
    return new


# ---- C10: names of the rules cfgrammar adds, and the two lexical regexes of the Yacc parser ----------
def c10(out):
    g = src("cfgrammar/src/lib/yacc/grammar.rs")
    for n in ("START_RULE", "IMPLICIT_RULE", "IMPLICIT_START_RULE"):
        m = re.search(r'const\s+%s\s*:\s*&str\s*=\s*"((?:[^"\\]|\\.)*)"\s*;' % n, g)
        if not m:
            raise SystemExit(f"extract: constant {n} not found in yacc/grammar.rs")
        out.append(f"def YACC_{n} : List Nat := [" + ", ".join(str(ord(c)) for c in rust_str(m.group(1))) + "]")
    yp = src("cfgrammar/src/lib/yacc/parser.rs")
    for n in ("RE_NAME", "RE_TOKEN"):
        m = re.search(r'static\s+%s\s*:\s*LazyLock<Regex>\s*=\s*LazyLock::new\(\|\|\s*Regex::new\((r?)"((?:[^"\\]|\\.)*)"\)' % n, yp, re.S)
        if not m:
            raise SystemExit(f"extract: regex {n} not found in yacc/parser.rs")
        pat = m.group(2) if m.group(1) else rust_str(m.group(2))
        out.append(f"def YACC_{n}_SRC : String := {lean_str(pat)}")
    out.append("")


def section(prop, fn, old_text, failures):
    """Run one property's extractor. Its output is framed by markers; when it fails (the source no
    longer has the expected shape) the previous block is kept, so that the Lean library still builds
    for the OTHER properties, and the failure is reported for `prop` only."""
    begin, end = f"-- BEGIN {prop}", f"-- END {prop}"
    try:
        block = []
        r = fn(block)
        if isinstance(r, list) and not block:
            block = r
        return [begin] + block + [end, ""]
    except SystemExit as e:
        failures[prop] = str(e)
        m = re.search(re.escape(begin) + r"\n(.*?)" + re.escape(end), old_text or "", re.S)
        return [begin] + (m.group(1).rstrip("\n").split("\n") if m else []) + [end, ""]


def main():
    old = open(OUT).read() if os.path.exists(OUT) else None
    failures = {}
    out = ["/-! GENERATED by tools/extract.py from /repo on every run. Do not edit. -/", "namespace GrmVerif.Extracted", ""]

    def base(block):
        cp = src("lrpar/src/lib/cpctplus.rs")
        block.append(f"def PARSE_AT_LEAST : Nat := {const(cp, 'PARSE_AT_LEAST', 'cpctplus.rs')}")
        block.append(f"def TRY_PARSE_AT_MOST : Nat := {const(cp, 'TRY_PARSE_AT_MOST', 'cpctplus.rs')}")
        st = src("lrtable/src/lib/statetable.rs")
        for n in ("SHIFT", "REDUCE", "ACCEPT", "ERROR"):
            block.append(f"def {n} : Nat := {const(st, n, 'statetable.rs')}")

    out += section("BASE", base, old, failures)
    out += section("C10", c10, old, failures)
    out += section("C11", c11, old, failures)
    out += section("C18", c18, old, failures)
    out += section("C20", lambda b: c20_guards(), old, failures)
    unaudited = []

    def c15w(block):
        unaudited.extend(c15(block) or [])

    out += section("C15", c15w, old, failures)
    out += ["end GrmVerif.Extracted", ""]
    new = "\n".join(out)
    if old != new:
        open(OUT, "w").write(new)
    if unaudited:
        failures["C15"] = ("C15: iteration over a randomly seeded HashMap/HashSet that is not in the audited list "
                           "(tools/propcfg/C15.py AUDIT) - classify it (order-irrelevant / order-relevant) and model it: "
                           + "; ".join(" | ".join(u) for u in unaudited[:4]))
    # a failed extractor is a broken tie for ITS property (and for every property when BASE fails)
    want = sys.argv[1] if len(sys.argv) > 1 else None
    for k, v in failures.items():
        if want is None or k == want or k == "BASE":
            raise SystemExit(f"extract [{k}]: {v}")


if __name__ == "__main__":
    main()
