%start a.b
%%
a.b: .c 'x' | ; .c: a.b;