%token a /* l1
/ l2 */ b
%%
A: a /*
/*/ b;
