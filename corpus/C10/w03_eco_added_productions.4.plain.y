%implicit_tokens ws1 ws2
%start S
%%
S: 'a' { x };