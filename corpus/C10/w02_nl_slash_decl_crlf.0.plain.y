%token a  b
%%
A: a  b;
