%implicit_tokens WS NL
%token a b
%start S
%left '+' '-'
%right '^'
%nonassoc '<'
%expect 1
%expect-rr 0
%avoid_insert a "b"
%epp a "the letter a"
%%
S: S '+' S %prec '+' | S '^' S | S '<' S | a /* c1 */ | b // c2
 | %empty ;
