%grmtools{yacckind: X::Y}
%%
S: "a";
