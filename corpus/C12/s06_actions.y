%grmtools{yacckind: Original(YaccOriginalActionKind::UserAction)}
%actiontype Result<u64, ()>
%parse-param p: &'a mut Vec<u8>
%start Expr
%token "INT" 'é'
%%
Expr: Expr '+' Term { Ok($1? + $3?) /* } */ }
    | Term { $1 } ;
Term: "INT" { let s = "}\"{"; let c = '}'; parse($lexer.span_str($span)) }
    | 'é' { Ok(0) } ;
%%
fn parse(s: &str) -> Result<u64, ()> { s.parse().map_err(|_| ()) }
